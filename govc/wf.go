package main

// Path well-formedness as an inductively defined predicate over the command array.
//
//   wfp(a, o, n)    : the cells a[o..o+n) decode, from both ends, into records [tag, args.., tag]
//                     with tag in {1,2,4,8,16,32}, the first record is a MoveTo and the record
//                     after a Close is a MoveTo.
//   bnd(a, o, n, i) : i (relative to o) is a record boundary of that decoding.
//
// Elimination (unfolding one step forwards and backwards) is instantiated by the engine at every
// mention of the predicates, so no quantified unfolding axiom (and no matching loop) is needed.
// Introduction rules are quantified axioms with multi-patterns (text below). Both are consequences
// of the inductive definition; they are part of the trusted base and listed in the evidence.

import (
	"go/ast"
	"go/types"
)

var realArr = ArrayOf(SInt, SReal)

func init() {
	declareUF("wfp", []*Sort{realArr, SInt, SInt}, SBool)
	declareUF("bnd", []*Sort{realArr, SInt, SInt, SInt}, SBool)
}

const wfPrelude = `
(define-fun agreeP ((a (Array Int Real)) (o Int) (b (Array Int Real)) (o2 Int) (n Int)) Bool
  (forall ((k Int)) (=> (and (<= 0 k) (< k n)) (= (select b (+ o2 k)) (select a (+ o k))))))
; A5: two boundaries of the same decoding are at least one record apart
(assert (forall ((a (Array Int Real)) (o Int) (n Int) (i Int) (k Int))
 (! (=> (and (wfp a o n) (bnd a o n i) (bnd a o n k) (< i k)) (>= k (+ i (tagLen (select a (+ o i))))))
    :pattern ((bnd a o n i) (bnd a o n k)))))
; I0: the empty sequence
(assert (forall ((a (Array Int Real)) (o Int)) (! (and (wfp a o 0) (forall ((i Int)) (! (= (bnd a o 0 i) (= i 0)) :pattern ((bnd a o 0 i))))) :pattern ((wfp a o 0)))))
; I1: extend the prefix that ends at boundary j by one record
(assert (forall ((a (Array Int Real)) (o Int) (n Int) (j Int) (b (Array Int Real)) (o2 Int) (m Int))
 (! (=> (and (wfp a o n) (bnd a o n j) (agreeP a o b o2 j)
             (isTag (select b (+ o2 j)))
             (= m (+ j (tagLen (select b (+ o2 j)))))
             (= (select b (+ o2 m (- 1))) (select b (+ o2 j)))
             (=> (= j 0) (= (select b (+ o2 j)) 1.0))
             (=> (and (> j 0) (= (select a (+ o j (- 1))) 32.0)) (= (select b (+ o2 j)) 1.0)))
        (and (wfp b o2 m)
             (forall ((i Int)) (! (= (bnd b o2 m i) (or (and (<= i j) (bnd a o n i)) (= i m))) :pattern ((bnd b o2 m i))))))
    :pattern ((bnd a o n j) (wfp b o2 m)))))
; I2: a prefix that ends at a boundary (also: copies and frames)
(assert (forall ((a (Array Int Real)) (o Int) (n Int) (j Int) (b (Array Int Real)) (o2 Int))
 (! (=> (and (wfp a o n) (bnd a o n j) (agreeP a o b o2 j))
        (and (wfp b o2 j)
             (forall ((i Int)) (! (= (bnd b o2 j i) (and (<= i j) (bnd a o n i))) :pattern ((bnd b o2 j i))))))
    :pattern ((bnd a o n j) (wfp b o2 j)))))
; I3: cells strictly inside one record change (coordinates), same array position
(assert (forall ((a (Array Int Real)) (o Int) (n Int) (i Int) (b (Array Int Real)))
 (! (=> (and (wfp a o n) (bnd a o n i) (< i n)
             (forall ((k Int)) (=> (and (<= 0 k) (< k n) (or (<= k i) (>= k (+ i (tagLen (select a (+ o i))) (- 1)))))
                                   (= (select b (+ o k)) (select a (+ o k))))))
        (and (wfp b o n)
             (forall ((k Int)) (! (= (bnd b o n k) (bnd a o n k)) :pattern ((bnd b o n k))))))
    :pattern ((bnd a o n i) (wfp b o n)))))
`

const wfDefs = `(define-fun isTag ((t Real)) Bool (or (= t 1.0) (= t 2.0) (= t 4.0) (= t 8.0) (= t 16.0) (= t 32.0)))
(define-fun tagLen ((t Real)) Int (ite (= t 4.0) 6 (ite (or (= t 8.0) (= t 16.0)) 8 4)))
`

func isTagT(t *Term) *Term {
	var alts []*Term
	for _, v := range []float64{1, 2, 4, 8, 16, 32} {
		alts = append(alts, Eq(t, RealLitF(v)))
	}
	return Or(alts...)
}

func tagLenT(t *Term) *Term {
	return Ite(Eq(t, RealLitF(4)), IntLit(6), Ite(Or(Eq(t, RealLitF(8)), Eq(t, RealLitF(16))), IntLit(8), IntLit(4)))
}

// seqOf returns (array, offset, length) of a []float64 value in the heap of s
func (x *Exec) seqOf(s *State, sv *Term) (*Term, *Term, *Term) {
	mem := x.memGet(s, SReal)
	return Select(mem, Field(sv, 0)), Field(sv, 1), Field(sv, 2)
}

func wfpT(a, o, n *Term) *Term    { return App("wfp", SBool, a, o, n) }
func bndT(a, o, n, i *Term) *Term { return App("bnd", SBool, a, o, n, i) }

// unfoldBnd adds the one-step forward/backward unfolding of bnd(a,o,n,i) under wfp(a,o,n)
func (x *Exec) unfoldBnd(s *State, a, o, n, i *Term) {
	x.unfoldBndD(s, a, o, n, i, 1, 0)
}

// dir: 0 both, -1 backward chain only, +1 forward chain only
func (x *Exec) unfoldBndD(s *State, a, o, n, i *Term, depth int, dir int) {
	g := And(wfpT(a, o, n), bndT(a, o, n, i))
	t := Select(a, Arith("+", o, i))
	lt := tagLenT(t)
	u := Select(a, Arith("-", Arith("+", o, i), IntLit(1)))
	lu := tagLenT(u)
	fwd := Implies(Cmp("<", i, n), And(
		isTagT(t),
		Cmp("<=", Arith("+", i, lt), n),
		bndT(a, o, n, Arith("+", i, lt)),
		Eq(Select(a, Arith("-", Arith("+", Arith("+", o, i), lt), IntLit(1))), t),
		Implies(And(Cmp(">", i, IntLit(0)), Eq(u, RealLitF(32))), Eq(t, RealLitF(1))),
		Implies(Eq(i, IntLit(0)), Eq(t, RealLitF(1))),
	))
	bwd := Implies(Cmp(">", i, IntLit(0)), And(
		isTagT(u),
		Cmp(">=", Arith("-", i, lu), IntLit(0)),
		bndT(a, o, n, Arith("-", i, lu)),
		Eq(Select(a, Arith("-", Arith("+", o, i), lu)), u),
	))
	if i == n {
		fwd = True
	}
	if i.rat != nil && i.rat.Sign() == 0 {
		bwd = True
	}
	s.assume(Implies(g, And(Cmp("<=", IntLit(0), i), Cmp("<=", i, n), fwd, bwd)))
	if depth > 1 {
		if dir <= 0 {
			x.unfoldBndD(s, a, o, n, Arith("-", i, lu), depth-1, -1)
		}
		if dir >= 0 {
			x.unfoldBndD(s, a, o, n, Arith("+", i, lt), depth-1, 1)
		}
	}
}

func (x *Exec) mentionWf(s *State, a, o, n *Term) *Term {
	w := wfpT(a, o, n)
	s.assume(Implies(w, And(Cmp(">=", n, IntLit(0)), bndT(a, o, n, IntLit(0)), bndT(a, o, n, n))))
	x.unfoldBndD(s, a, o, n, IntLit(0), 2, 1)
	x.unfoldBndD(s, a, o, n, n, 2, -1)
	x.eng.usedWf = true
	return w
}

func (x *Exec) specWfd(s *State, call *ast.CallExpr) *Term {
	sv := x.eval(s, call.Args[0])
	a, o, n := x.seqOf(s, sv)
	return x.mentionWf(s, a, o, n)
}

func (x *Exec) specBnd(s *State, call *ast.CallExpr) *Term {
	sv := x.eval(s, call.Args[0])
	i := x.eval(s, call.Args[1])
	a, o, n := x.seqOf(s, sv)
	x.unfoldBnd(s, a, o, n, i)
	x.eng.usedWf = true
	return bndT(a, o, n, i)
}

var _ types.Type
