package main

// Path well-formedness as an inductively defined predicate over the command array.
//
//   wfp(a, o, n)    : the cells a[o..o+n) decode, from both ends, into records [tag, args.., tag]
//                     with tag in {1,2,4,8,16,32}, the first record is a MoveTo and the record
//                     after a Close is a MoveTo.
//   bnd(a, o, n, i) : i (relative to o) is a record boundary of that decoding.
//
// Elimination (unfolding one step forwards and backwards) is instantiated by the engine at every
// mention of the predicates, so no quantified unfolding axiom (and no matching loop) is needed.
// Introduction rules are quantified axioms with multi-patterns (text below). Both are consequences
// of the inductive definition; they are part of the trusted base and listed in the evidence.

import (
	"sync"
	"fmt"
	"go/ast"
	"go/token"
	"go/types"
	"os"
)

var realArr = ArrayOf(SInt, SReal)

func init() {
	declareUF("wfp", []*Sort{realArr, SInt, SInt}, SBool)
	declareUF("bnd", []*Sort{realArr, SInt, SInt, SInt}, SBool)
}

const wfPrelude = `
`

const wfDefs = `(define-fun isTag ((t Real)) Bool (or (= t 1.0) (= t 2.0) (= t 4.0) (= t 8.0) (= t 16.0) (= t 32.0)))
(define-fun tagLen ((t Real)) Int (ite (= t 4.0) 6 (ite (or (= t 8.0) (= t 16.0)) 8 4)))
`

func isTagT(t *Term) *Term {
	var alts []*Term
	for _, v := range []float64{1, 2, 4, 8, 16, 32} {
		alts = append(alts, Eq(t, RealLitF(v)))
	}
	return Or(alts...)
}

func tagLenT(t *Term) *Term {
	return Ite(Eq(t, RealLitF(4)), IntLit(6), Ite(Or(Eq(t, RealLitF(8)), Eq(t, RealLitF(16))), IntLit(8), IntLit(4)))
}

// seqOf returns (array, offset, length) of a []float64 value in the heap of s
func (x *Exec) seqOf(s *State, sv *Term) (*Term, *Term, *Term) {
	mem := x.memGet(s, SReal)
	return Select(mem, Field(sv, 0)), Field(sv, 1), Field(sv, 2)
}

func wfpT(a, o, n *Term) *Term    { return App("wfp", SBool, a, o, n) }
func bndT(a, o, n, i *Term) *Term { return App("bnd", SBool, a, o, n, i) }

// unfoldBnd adds the one-step forward/backward unfolding of bnd(a,o,n,i) under wfp(a,o,n)
func (x *Exec) unfoldBnd(s *State, a, o, n, i *Term) {
	x.unfoldBndD(s, a, o, n, i, 1, 0)
}

// dir: 0 both, -1 backward chain only, +1 forward chain only
type equivRule struct {
	cond, o, n *Term
	rhs        func(i *Term) *Term
}

// regEquiv records an introduction rule "cond => forall i. bnd(b,o,n,i) == rhs(i)" so that ground instances can be
// added at every later ground mention bnd(b,o,n,i) (the quantified form alone depends on the solver's matching,
// which fails when b is an ite-term)
func (x *Exec) regEquiv(cond, b, o, n *Term, rhs func(i *Term) *Term) {
	if x.equivRules == nil {
		x.equivRules = map[*Term][]equivRule{}
	}
	if len(x.equivRules[b]) < 4 {
		x.equivRules[b] = append(x.equivRules[b], equivRule{cond, o, n, rhs})
	}
}

func (x *Exec) unfoldBndD(s *State, a, o, n, i *Term, depth int, dir int) {
	if x.bndMentions == nil {
		x.bndMentions = map[*Term][]*Term{}
	}
	if dir == 0 && !i.hasBound && !x.inEquivInst {
		for _, r := range x.equivRules[a] {
			if r.o == o && r.n == n {
				x.inEquivInst = true
				s.assume(Implies(r.cond, Eq(bndT(a, o, n, i), r.rhs(i))))
				x.inEquivInst = false
			}
		}
	}
	if depth >= 1 && dir == 0 || true {
		dup := false
		for _, m := range x.bndMentions[a] {
			if m == i {
				dup = true
			}
		}
		if !dup {
			x.bndMentions[a] = append(x.bndMentions[a], i)
		}
	}
	g := And(wfpT(a, o, n), bndT(a, o, n, i))
	t := Select(a, Arith("+", o, i))
	lt := tagLenT(t)
	u := Select(a, Arith("-", Arith("+", o, i), IntLit(1)))
	lu := tagLenT(u)
	fwd := Implies(Cmp("<", i, n), And(
		isTagT(t),
		Cmp("<=", Arith("+", i, lt), n),
		bndT(a, o, n, Arith("+", i, lt)),
		Eq(Select(a, Arith("-", Arith("+", Arith("+", o, i), lt), IntLit(1))), t),
		Implies(And(Cmp(">", i, IntLit(0)), Eq(u, RealLitF(32))), Eq(t, RealLitF(1))),
		Implies(Eq(i, IntLit(0)), Eq(t, RealLitF(1))),
	))
	bwd := Implies(Cmp(">", i, IntLit(0)), And(
		isTagT(u),
		Cmp(">=", Arith("-", i, lu), IntLit(0)),
		bndT(a, o, n, Arith("-", i, lu)),
		Eq(Select(a, Arith("-", Arith("+", o, i), lu)), u),
	))
	if i == n {
		fwd = True
	}
	if i.rat != nil && i.rat.Sign() == 0 {
		bwd = True
	}
	s.assume(Implies(g, And(Cmp("<=", IntLit(0), i), Cmp("<=", i, n), fwd, bwd)))
	// A5 for this ground boundary: any other boundary of the same decoding is at least one record away
	if !i.hasBound && !a.hasBound && !o.hasBound && !n.hasBound && dir == 0 {
		k := BoundVar(sanitizeSym(x.freshName("ak")), SInt)
		bk := bndT(a, o, n, k)
		tk := Select(a, Arith("+", o, k))
		s.assume(Forall([]*Term{k}, Implies(And(g, bk), And(
			Implies(Cmp("<", i, k), Cmp(">=", k, Arith("+", i, lt))),
			Implies(Cmp("<", k, i), Cmp(">=", i, Arith("+", k, tagLenT(tk)))))), []*Term{bk}))
	}
	if depth > 1 {
		if dir <= 0 {
			x.unfoldBndD(s, a, o, n, Arith("-", i, lu), depth-1, -1)
		}
		if dir >= 0 {
			x.unfoldBndD(s, a, o, n, Arith("+", i, lt), depth-1, 1)
		}
	}
}

func (x *Exec) mentionWf(s *State, a, o, n *Term) *Term {
	w := wfpT(a, o, n)
	s.assume(Implies(w, And(Cmp(">=", n, IntLit(0)), bndT(a, o, n, IntLit(0)), bndT(a, o, n, n))))
	d := 2
	if a.hasBound || o.hasBound || n.hasBound {
		d = 1 // inside quantifiers: one step only (keeps the bodies small)
	}
	x.unfoldBndD(s, a, o, n, IntLit(0), d, 1)
	x.unfoldBndD(s, a, o, n, n, d, -1)
	// I0 (the empty sequence is well-formed), instantiated for this sequence
	s.assume(Implies(Eq(n, IntLit(0)), And(w, bndEquiv(x, a, o, n, func(i *Term) *Term { return Eq(i, IntLit(0)) }))))
	x.eng.usedWf = true
	return w
}

func (x *Exec) specWfd(s *State, call *ast.CallExpr) *Term {
	sv := x.eval(s, call.Args[0])
	a, o, n := x.seqOf(s, sv)
	return x.mentionWf(s, a, o, n)
}

func (x *Exec) specBnd(s *State, call *ast.CallExpr) *Term {
	sv := x.eval(s, call.Args[0])
	i := x.eval(s, call.Args[1])
	a, o, n := x.seqOf(s, sv)
	x.unfoldBnd(s, a, o, n, i)
	x.eng.usedWf = true
	return bndT(a, o, n, i)
}

var _ types.Type

// ---- event-driven introduction rules: emitted by the engine at the heap events that create a new
// command array from an old one (store, append, slicing, copy). Each is an instance of the
// introduction rules of the inductive definition for the two concrete sequences involved.

func bndEquiv(x *Exec, b, o2, m *Term, rhs func(i *Term) *Term) *Term {
	i := BoundVar(sanitizeSym(x.freshName("bi")), SInt)
	lhs := bndT(b, o2, m, i)
	r := rhs(i)
	pats := [][]*Term{}
	if !hasIte(b) && !hasIte(o2) && !hasIte(m) {
		pats = append(pats, []*Term{lhs})
	}
	// also trigger on boundary terms of the source sequence that are applied to the bare variable
	var find func(t *Term)
	seen := map[*Term]bool{}
	find = func(t *Term) {
		if seen[t] {
			return
		}
		seen[t] = true
		if t.K == TApp && t.Op == "bnd" && t.Args[3] == i && !hasIte(t.Args[0]) && !hasIte(t.Args[1]) && !hasIte(t.Args[2]) {
			pats = append(pats, []*Term{t})
			return
		}
		for _, a := range t.Args {
			find(a)
		}
	}
	find(r)
	return Forall([]*Term{i}, Eq(lhs, r), pats...)
}

// store into cell idx (relative to o) of sequence (a,o,n) giving array b
func (x *Exec) wfStoreRule(s *State, a, b, o, n, idx *Term) {
	i := BoundVar(sanitizeSym(x.freshName("ri")), SInt)
	t := Select(a, Arith("+", o, i))
	hyp := And(wfpT(a, o, n), bndT(a, o, n, i), Cmp("<", i, idx), Cmp("<", idx, Arith("-", Arith("+", i, tagLenT(t)), IntLit(1))))
	concl := And(wfpT(b, o, n), bndEquiv(x, b, o, n, func(k *Term) *Term { return bndT(a, o, n, k) }))
	s.assume(Forall([]*Term{i}, Implies(hyp, concl), []*Term{bndT(a, o, n, i)}))
	x.eng.usedWf = true
}

// tag store: both tags of the record at boundary j change to nt (same length)
// handled by the general "last record replaced" rule below.

// append of the values vals to (a,o,n) giving (b,o2,n+len(vals)): one new record
// I0 for a concrete sequence: if it is empty it is well-formed and 0 is its only boundary
func (x *Exec) wfEmptyFact(s *State, a, o, n *Term) {
	s.assume(Implies(Eq(n, IntLit(0)), And(wfpT(a, o, n), bndEquiv(x, a, o, n, func(i *Term) *Term { return Eq(i, IntLit(0)) }))))
}

func (x *Exec) wfAppendRule(s *State, a, o, n, b, o2 *Term, vals []*Term) {
	c := int64(len(vals))
	if c < 4 {
		return
	}
	x.wfEmptyFact(s, a, o, n)
	v0 := vals[0]
	cond := And(wfpT(a, o, n), isTagT(v0), Eq(tagLenT(v0), IntLit(c)), Eq(vals[c-1], v0),
		Implies(Eq(n, IntLit(0)), Eq(v0, RealLitF(1))),
		Implies(And(Cmp(">", n, IntLit(0)), Eq(Select(a, Arith("-", Arith("+", o, n), IntLit(1))), RealLitF(32))), Eq(v0, RealLitF(1))))
	m := Arith("+", n, IntLit(c))
	concl := And(wfpT(b, o2, m), bndEquiv(x, b, o2, m, func(i *Term) *Term {
		return Or(And(Cmp("<=", i, n), bndT(a, o, n, i)), Eq(i, m))
	}))
	s.assume(Implies(cond, concl))
	x.regEquiv(cond, b, o2, m, func(i *Term) *Term {
		return Or(And(Cmp("<=", i, n), bndT(a, o, n, i)), Eq(i, m))
	})
	x.eng.usedWf = true
}

// concatenation append(A, B...) : (a,o,n) ++ (c,oc,nc) = (b,o2,n+nc)
func (x *Exec) wfConcatRule(s *State, a, o, n, c, oc, nc, b, o2 *Term) {
	x.wfEmptyFact(s, a, o, n)
	x.wfEmptyFact(s, c, oc, nc)
	cond := And(wfpT(a, o, n), wfpT(c, oc, nc))
	m := Arith("+", n, nc)
	concl := And(wfpT(b, o2, m), bndEquiv(x, b, o2, m, func(i *Term) *Term {
		return Or(And(Cmp("<=", i, n), bndT(a, o, n, i)), And(Cmp(">=", i, n), bndT(c, oc, nc, Arith("-", i, n))))
	}))
	s.assume(Implies(cond, concl))
	x.regEquiv(cond, b, o2, m, func(i *Term) *Term {
		return Or(And(Cmp("<=", i, n), bndT(a, o, n, i)), And(Cmp(">=", i, n), bndT(c, oc, nc, Arith("-", i, n))))
	})
	x.eng.usedWf = true
}

// concatenation with a suffix: (a,o,n) ++ (c,oc,nc)[lo:] = (b,o2,n+cnt) where lo is a record boundary of the
// well-formed (c,oc,nc), the suffix runs to its end, and the junction keeps "first record is a MoveTo" and
// "the record after a Close is a MoveTo"
func (x *Exec) wfConcatSuffixRule(s *State, a, o, n, c, oc, nc, lo, cnt, b, o2 *Term) {
	x.unfoldBnd(s, c, oc, nc, lo)
	first := Select(c, Arith("+", oc, lo))
	junction := Or(Eq(cnt, IntLit(0)), And(
		Implies(Eq(n, IntLit(0)), Eq(first, RealLitF(1))),
		Implies(And(Cmp(">", n, IntLit(0)), Eq(Select(a, Arith("-", Arith("+", o, n), IntLit(1))), RealLitF(32))), Eq(first, RealLitF(1)))))
	cond := And(wfpT(a, o, n), wfpT(c, oc, nc), bndT(c, oc, nc, lo), Eq(Arith("+", lo, cnt), nc), junction)
	m := Arith("+", n, cnt)
	concl := And(wfpT(b, o2, m), bndEquiv(x, b, o2, m, func(i *Term) *Term {
		return Or(And(Cmp("<=", i, n), bndT(a, o, n, i)), And(Cmp(">=", i, n), bndT(c, oc, nc, Arith("+", lo, Arith("-", i, n)))))
	}))
	s.assume(Implies(cond, concl))
	x.regEquiv(cond, b, o2, m, func(i *Term) *Term {
		return Or(And(Cmp("<=", i, n), bndT(a, o, n, i)), And(Cmp(">=", i, n), bndT(c, oc, nc, Arith("+", lo, Arith("-", i, n)))))
	})
	x.eng.usedWf = true
}

// sub-sequence a[o+lo : o+hi] of (a,o,n)
func (x *Exec) wfSliceRule(s *State, a, o, n, lo, hi *Term) {
	cond := And(wfpT(a, o, n), bndT(a, o, n, lo), bndT(a, o, n, hi), Cmp("<=", lo, hi),
		Or(Eq(lo, IntLit(0)), Eq(lo, hi), Eq(Select(a, Arith("+", o, lo)), RealLitF(1))))
	o2 := Arith("+", o, lo)
	m := Arith("-", hi, lo)
	concl := And(wfpT(a, o2, m), bndEquiv(x, a, o2, m, func(i *Term) *Term {
		return And(Cmp("<=", IntLit(0), i), Cmp("<=", i, m), bndT(a, o, n, Arith("+", lo, i)))
	}))
	s.assume(Implies(cond, concl))
	x.eng.usedWf = true
}

// whole-sequence copy: (a,o,n) copied to (b,o2,n)
func (x *Exec) wfCopyRule(s *State, a, o, n, b, o2, cnt, dstLen *Term) {
	cond := And(wfpT(a, o, n), Eq(cnt, n), Eq(dstLen, n))
	concl := And(wfpT(b, o2, n), bndEquiv(x, b, o2, n, func(i *Term) *Term { return bndT(a, o, n, i) }))
	s.assume(Implies(cond, concl))
	x.eng.usedWf = true
}

// record rewrite: relative to the root array r of a store chain, the array b differs from r only inside the
// record that starts at boundary j (tags and/or coordinates), and that record is again a legal record of the same
// length in b.
func (x *Exec) wfRecordRewriteRule(s *State, r, b, o, n, idx *Term) {
	j := BoundVar(sanitizeSym(x.freshName("rj")), SInt)
	k := BoundVar(sanitizeSym(x.freshName("rk")), SInt)
	t := Select(r, Arith("+", o, j))
	l := tagLenT(t)
	bt := Select(b, Arith("+", o, j))
	outside := Forall([]*Term{k}, Implies(And(Cmp("<=", IntLit(0), k), Cmp("<", k, n), Or(Cmp("<", k, j), Cmp(">=", k, Arith("+", j, l)))),
		Eq(Select(b, Arith("+", o, k)), Select(r, Arith("+", o, k)))))
	hyp := And(wfpT(r, o, n), bndT(r, o, n, j), Cmp("<", j, n),
		Cmp("<=", j, idx), Cmp("<", idx, Arith("+", j, l)),
		outside,
		isTagT(bt), Eq(tagLenT(bt), l), Eq(Select(b, Arith("-", Arith("+", Arith("+", o, j), l), IntLit(1))), bt),
		Implies(Eq(j, IntLit(0)), Eq(bt, RealLitF(1))),
		Implies(And(Cmp(">", j, IntLit(0)), Eq(Select(r, Arith("-", Arith("+", o, j), IntLit(1))), RealLitF(32))), Eq(bt, RealLitF(1))),
		Implies(And(Cmp("<", Arith("+", j, l), n), Eq(bt, RealLitF(32))), Eq(Select(r, Arith("+", o, Arith("+", j, l))), RealLitF(1))))
	concl := And(wfpT(b, o, n), bndEquiv(x, b, o, n, func(k *Term) *Term { return bndT(r, o, n, k) }))
	s.assume(Forall([]*Term{j}, Implies(hyp, concl), []*Term{bndT(r, o, n, j)}))
	x.eng.usedWf = true
}

// structural store: if the solver shows (quickly) that idx lies strictly inside a record that starts at a
// boundary already mentioned for this array, the new array has the same decoding; the equivalence is
// stated against the structural root of the store chain (star, not chain).
func (x *Exec) wfStructuralStore(s *State, a, b, o, n, idx *Term, p token.Pos) bool {
	if x.dry > 0 {
		return false
	}
	if x.structRoot == nil {
		x.structRoot = map[*Term]*Term{}
	}
	root := a
	if r, ok := x.structRoot[a]; ok {
		root = r
	}
	cands := append([]*Term(nil), x.bndMentions[a]...)
	if root != a {
		cands = append(cands, x.bndMentions[root]...)
	}
	var nb []*Term
	for _, c := range cands {
		if !c.hasBound {
			nb = append(nb, c)
		}
	}
	cands = nb
	// simplest index terms last (tried first)
	size := func(t *Term) int {
		n := 0
		if t.K == TLit {
			return 40 // literals (0, n) are rarely the record that contains idx
		}
		var rec func(t *Term)
		rec = func(t *Term) {
			n++
			if n > 50 {
				return
			}
			for _, a := range t.Args {
				rec(a)
			}
		}
		rec(t)
		return n
	}
	for i := 1; i < len(cands); i++ {
		for j := i; j > 0 && size(cands[j]) > size(cands[j-1]); j-- {
			cands[j], cands[j-1] = cands[j-1], cands[j]
		}
	}
	var qf []*Term
	for _, h := range s.assumes {
		if !hasQuant(h) {
			qf = append(qf, h)
		}
	}
	for ci := len(cands) - 1; ci >= 0 && ci >= len(cands)-3; ci-- {
		i := cands[ci]
		t := Select(root, Arith("+", o, i))
		goal := And(wfpT(root, o, n), bndT(root, o, n, i), Cmp("<", i, idx), Cmp("<", idx, Arith("-", Arith("+", i, tagLenT(t)), IntLit(1))))
		ob := &Obligation{Name: fmt.Sprintf("%s/wfstore#%d", x.top.Key, len(x.sideObls)+1), Kind: "wfstore", Func: x.top.Key,
			Hyps: qf, Goal: goal, Pos: x.pos(p), Text: "store strictly inside a record: decoding unchanged", fi: x.top, Props: x.curProps, HypTags: x.hypTags}
		dir, _ := os.MkdirTemp("/var/tmp", "govc.side.")
		r := quickSolve(ob, dir, 1)
		os.RemoveAll(dir)
		if os.Getenv("GOVC_TRACE") != "" {
			fmt.Fprintf(os.Stderr, "wfstore %s cand#%d/%d: %s %s\n", x.pos(p), ci, len(cands), r.Status, r.Raw)
		}
		if r.Status == "proved" {
			ob.Result = r
			x.sideObls = append(x.sideObls, ob)
			x.structRoot[b] = root
			eq := And(Eq(wfpT(b, o, n), wfpT(root, o, n)), bndEquiv(x, b, o, n, func(k *Term) *Term { return bndT(root, o, n, k) }))
			storeEquivMu.Lock()
			storeEquivHyp[eq] = b
			storeEquivMu.Unlock()
			s.assume(eq)
			return true
		}
	}
	return false
}

// store-equivalence hypotheses ("array b decodes like its structural root") by array: the solver variants drop
// those whose array no other hypothesis or the goal decodes (intermediate versions of a multi-cell record update)
var (
	storeEquivMu  sync.Mutex
	storeEquivHyp = map[*Term]*Term{}
)

// dropUnusedStoreEquiv removes store-equivalence hypotheses about arrays that are decoded (wfp/bnd) nowhere else
func dropUnusedStoreEquiv(hyps []*Term, goal *Term) ([]*Term, int) {
	storeEquivMu.Lock()
	defer storeEquivMu.Unlock()
	if len(storeEquivHyp) == 0 {
		return hyps, 0
	}
	used := map[*Term]bool{}
	seen := map[*Term]bool{}
	var rec func(t *Term)
	rec = func(t *Term) {
		if seen[t] {
			return
		}
		seen[t] = true
		if t.K == TApp && (t.Op == "bnd" || t.Op == "wfp") {
			used[t.Args[0]] = true
		}
		for _, a := range t.Args {
			rec(a)
		}
	}
	any := false
	for _, h := range hyps {
		if _, ok := storeEquivHyp[h]; ok {
			any = true
			continue
		}
		rec(h)
	}
	if !any {
		return hyps, 0
	}
	if goal != nil {
		rec(goal)
	}
	var out []*Term
	dropped := 0
	for _, h := range hyps {
		if b, ok := storeEquivHyp[h]; ok && !used[b] {
			dropped++
			continue
		}
		out = append(out, h)
	}
	return out, dropped
}

func hasIte(t *Term) bool {
	seen := map[*Term]bool{}
	var rec func(t *Term) bool
	rec = func(t *Term) bool {
		if seen[t] {
			return false
		}
		seen[t] = true
		if t.K == TApp && (t.Op == "ite" || t.Op == "and" || t.Op == "or" || t.Op == "not" || t.Op == "=") {
			return true
		}
		for _, a := range t.Args {
			if rec(a) {
				return true
			}
		}
		return false
	}
	return rec(t)
}
