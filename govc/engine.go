package main

import (
	"fmt"
	"go/ast"
	"math/big"
	"go/token"
	"go/types"
	"os"
	"path/filepath"
	"sort"
	"strings"

	"golang.org/x/tools/go/packages"
)

type Engine struct {
	callInfos map[*FuncInfo]*callInfo
	fset        *token.FileSet
	pkgs        []*packages.Package
	funcs       map[*types.Func]*FuncInfo
	byKey       map[string]*FuncInfo // "<pkgname>.<key>"
	contracts   map[*types.Func]*Contract
	ctList      []*Contract
	tm          *TypeMap
	axioms      map[string][]*Clause // per package path
	usedTrusted map[string]string
	assumeSites []string
	repo        string
	loadErrs    []string
	usedWf      bool
	typeInvs    map[string][]*typeInvClause
	globalInit  map[*types.Var]ast.Expr
	globalInitPkg map[*types.Var]*packages.Package
	usedTypeInv map[string]bool
}

func (eng *Engine) isPureFunc(f *types.Func) bool {
	fi := eng.funcs[f.Origin()]
	if fi == nil {
		return false
	}
	return fi.pure
}

// modular: callers use the contract (not the body) when the contract has clauses and is not marked inline
func (eng *Engine) modular(ct *Contract) bool {
	if ct.Inline {
		return false
	}
	return len(ct.Ensures) > 0 || len(ct.Requires) > 0 || ct.HasAssign
}

var goBin string

func findGo() string {
	if g := os.Getenv("GOVC_GO"); g != "" {
		return g
	}
	m, _ := filepath.Glob("/root/go/pkg/mod/golang.org/toolchain@v0.0.1-go1.24*.linux-amd64/bin/go")
	if len(m) > 0 {
		sort.Strings(m)
		return m[len(m)-1]
	}
	return "go"
}

func loadEngine(repo string, patterns []string) (*Engine, error) {
	goBin = findGo()
	if goBin != "go" {
		os.Setenv("PATH", filepath.Dir(goBin)+":"+os.Getenv("PATH"))
	}
	os.Setenv("GOFLAGS", "-mod=mod")
	os.Setenv("GOPROXY", "off")
	os.Setenv("GOSUMDB", "off")
	os.Setenv("GOTOOLCHAIN", "local")
	env := os.Environ()
	fset := token.NewFileSet()
	cfg := &packages.Config{
		Mode: packages.NeedName | packages.NeedFiles | packages.NeedCompiledGoFiles | packages.NeedImports |
			packages.NeedTypes | packages.NeedSyntax | packages.NeedTypesInfo | packages.NeedTypesSizes,
		Dir:        repo,
		BuildFlags: []string{"-tags=verif"},
		Env:        env,
		Fset:       fset,
		ParseFile: func(fset *token.FileSet, filename string, src []byte) (*ast.File, error) {
			return parserParse(fset, filename, src)
		},
	}
	pkgs, err := packages.Load(cfg, patterns...)
	if err != nil {
		return nil, err
	}
	eng := &Engine{fset: fset, pkgs: pkgs, funcs: map[*types.Func]*FuncInfo{}, byKey: map[string]*FuncInfo{},
		contracts: map[*types.Func]*Contract{}, tm: newTypeMap(), axioms: map[string][]*Clause{}, usedTrusted: map[string]string{}, repo: repo, usedTypeInv: map[string]bool{}}
	for _, p := range pkgs {
		for _, e := range p.Errors {
			eng.loadErrs = append(eng.loadErrs, e.Error())
		}
		for _, f := range p.Syntax {
			for _, d := range f.Decls {
				if gd, ok := d.(*ast.GenDecl); ok && gd.Tok == token.VAR {
					for _, sp := range gd.Specs {
						if vs, ok := sp.(*ast.ValueSpec); ok && len(vs.Values) == len(vs.Names) {
							for i, nm := range vs.Names {
								if v, ok := p.TypesInfo.Defs[nm].(*types.Var); ok {
									if eng.globalInit == nil {
										eng.globalInit = map[*types.Var]ast.Expr{}
										eng.globalInitPkg = map[*types.Var]*packages.Package{}
									}
									eng.globalInit[v] = vs.Values[i]
									eng.globalInitPkg[v] = p
								}
							}
						}
					}
				}
				fd, ok := d.(*ast.FuncDecl)
				if !ok {
					continue
				}
				obj, _ := p.TypesInfo.Defs[fd.Name].(*types.Func)
				if obj == nil {
					continue
				}
				fi := &FuncInfo{Decl: fd, Pkg: p, Obj: obj, Key: funcKey(fd)}
				fi.File = fset.Position(fd.Pos()).Filename
				eng.funcs[obj] = fi
				eng.byKey[p.Types.Name()+"."+fi.Key] = fi
			}
		}
	}
	if len(eng.loadErrs) > 0 {
		return eng, fmt.Errorf("package load errors: %s", strings.Join(eng.loadErrs, "; "))
	}
	// contracts
	for _, p := range pkgs {
		for _, f := range p.Syntax {
			name := filepath.Base(fset.Position(f.Pos()).Filename)
			if !strings.HasPrefix(name, "verif_") {
				continue
			}
			cts, axioms, err := parseContractFile(fset, f, p)
			if err != nil {
				return eng, err
			}
			eng.axioms[p.PkgPath] = append(eng.axioms[p.PkgPath], axioms...)
			for _, ct := range cts {
				fi := eng.byKey[p.Types.Name()+"."+ct.Key]
				if fi == nil {
					ct.Missing = true
					eng.ctList = append(eng.ctList, ct)
					continue
				}
				ct.Fn = fi
				if prev := eng.contracts[fi.Obj]; prev != nil {
					return eng, fmt.Errorf("%s: duplicate contract for %s (also %s)", ct.Line, ct.Key, prev.Line)
				}
				eng.contracts[fi.Obj] = ct
				eng.ctList = append(eng.ctList, ct)
			}
		}
	}
	// type-check clauses
	for _, ct := range eng.ctList {
		if ct.Missing {
			continue
		}
		fi := ct.Fn
		if fi.Decl.Body == nil {
			continue
		}
		pos := fi.Decl.Body.Lbrace + 1
		for _, c := range ct.Requires {
			if err := eng.checkClause(c, fi, pos, false); err != nil {
				return eng, err
			}
		}
		for _, c := range ct.Ensures {
			if err := eng.checkClause(c, fi, pos, true); err != nil {
				return eng, err
			}
		}
		if len(ct.Assigns) > 0 {
			ct.AssignsI = newInfo()
			for _, a := range ct.Assigns {
				if a == "*" {
					ct.AssignsE = append(ct.AssignsE, nil)
					continue
				}
				c := &Clause{Text: a, Line: ct.Line}
				e, err := parseClauseExpr(eng.fset, c)
				if err != nil {
					return eng, err
				}
				// mem(e) is not a Go function: check the argument only
				target := e
				if call, ok := e.(*ast.CallExpr); ok {
					if id, ok := call.Fun.(*ast.Ident); ok && id.Name == "mem" && len(call.Args) == 1 {
						target = call.Args[0]
					}
				}
				if err := types.CheckExpr(eng.fset, fi.Pkg.Types, pos, target, ct.AssignsI); err != nil {
					return eng, fmt.Errorf("%s: assigns %q: %v", ct.Line, a, err)
				}
				ct.AssignsE = append(ct.AssignsE, e)
			}
		}
		// loops: find positions
		loops := collectLoops(fi.Decl.Body)
		for ord, ls := range ct.Loops {
			if ord < 1 || ord > len(loops) {
				return eng, fmt.Errorf("%s: %s has %d loops, contract mentions loop %d", ct.Line, ct.Key, len(loops), ord)
			}
			lpos := loops[ord-1]
			for _, c := range ls.Invariants {
				if err := eng.checkClause(c, fi, lpos, false); err != nil {
					return eng, err
				}
			}
			if ls.Decreases != nil {
				if err := eng.checkClause(ls.Decreases, fi, lpos, false); err != nil {
					return eng, err
				}
			}
		}
	}
	// axioms: checked at package scope
	for _, p := range pkgs {
		for _, c := range eng.axioms[p.PkgPath] {
			if c.Kind == "globalwrite" {
				continue
			}
			if strings.HasPrefix(c.Kind, "typeinv:") {
				tn := strings.TrimPrefix(c.Kind, "typeinv:")
				src := "func(self *" + tn + ") bool { return " + c.Text + " }"
				e, err := parseClauseExpr(eng.fset, &Clause{Text: src, Line: c.Line})
				if err != nil {
					return eng, err
				}
				c.Info = newInfo()
				if err := types.CheckExpr(eng.fset, p.Types, token.NoPos, e, c.Info); err != nil {
					return eng, fmt.Errorf("%s: typeinv %q: %v", c.Line, c.Text, err)
				}
				c.Expr = e
				obj := p.Types.Scope().Lookup(tn)
				if obj == nil {
					return eng, fmt.Errorf("%s: typeinv: unknown type %s", c.Line, tn)
				}
				if eng.typeInvs == nil {
					eng.typeInvs = map[string][]*typeInvClause{}
				}
				key := types.TypeString(obj.Type(), nil)
				eng.typeInvs[key] = append(eng.typeInvs[key], &typeInvClause{c: c, pkg: p})
				continue
			}
			e, err := parseClauseExpr(eng.fset, c)
			if err != nil {
				return eng, err
			}
			c.Info = newInfo()
			if err := types.CheckExpr(eng.fset, p.Types, token.NoPos, e, c.Info); err != nil {
				return eng, fmt.Errorf("%s: axiom %q: %v", c.Line, c.Text, err)
			}
			c.Expr = e
		}
	}
	eng.computePurity()
	if err := eng.checkPureFresh(); err != nil {
		return eng, err
	}
	return eng, nil
}

type typeInvClause struct {
	c   *Clause
	pkg *packages.Package
}

// collectLoops returns, in source order (pre-order), a position inside each loop body
func collectLoops(body *ast.BlockStmt) []token.Pos {
	var out []token.Pos
	for _, n := range loopNodes(body) {
		switch l := n.(type) {
		case *ast.ForStmt:
			out = append(out, l.Body.Lbrace+1)
		case *ast.RangeStmt:
			out = append(out, l.Body.Lbrace+1)
		}
	}
	return out
}

// loopNodes: the loops of a function body in the order of their contract ordinals (1-based): first the loops outside
// function literals in source order, then the loops inside function literals (closures defined in the function, which
// are executed inlined at their call sites) in source order. Appending the closure loops keeps older ordinals stable.
func loopNodes(body *ast.BlockStmt) []ast.Node {
	var outer, inner []ast.Node
	depth := 0
	var stack []ast.Node
	ast.Inspect(body, func(n ast.Node) bool {
		if n == nil {
			top := stack[len(stack)-1]
			stack = stack[:len(stack)-1]
			if _, ok := top.(*ast.FuncLit); ok {
				depth--
			}
			return true
		}
		stack = append(stack, n)
		switch n.(type) {
		case *ast.FuncLit:
			depth++
		case *ast.ForStmt, *ast.RangeStmt:
			if depth == 0 {
				outer = append(outer, n)
			} else {
				inner = append(inner, n)
			}
		}
		return true
	})
	return append(outer, inner...)
}

// computePurity: a function is pure if its body contains no heap stores, appends, allocations escaping... conservative:
// no assignments through pointers/slices/maps/globals and only calls to pure functions / math.
// checkPureFresh: a `pure` contract makes the result a function of the arguments alone; `fresh(result...)` says the
// result is allocated during each call. Two calls with equal arguments would then return the same reference that is
// fresh for both, which is contradictory (every clause calling it twice becomes vacuous): rejected at load time.
func (eng *Engine) checkPureFresh() error {
	for _, ct := range eng.contracts {
		// `generalize g`: forall-introduction over the ghost variable g at call sites is sound only if no precondition
		// constrains g, the contract is proved (not trusted), and g is a ghost variable (declared in a verif file, which
		// the real code cannot mention, so the callee cannot assign it)
		for _, gv := range ct.Generalize {
			if !strings.HasPrefix(gv, "ghost") {
				return fmt.Errorf("contract of %s: generalize %s: not a ghost variable", ct.Key, gv)
			}
			if ct.Trusted != "" {
				return fmt.Errorf("contract of %s: generalize on a trusted contract", ct.Key)
			}
			for _, rq := range ct.Requires {
				if strings.Contains(rq.Text, gv) {
					return fmt.Errorf("%s: contract of %s: generalize %s, but a precondition mentions it", rq.Line, ct.Key, gv)
				}
			}
		}
		if !ct.Pure {
			continue
		}
		for _, en := range ct.Ensures {
			if strings.Contains(strings.ReplaceAll(en.Text, " ", ""), "fresh(result") {
				return fmt.Errorf("%s: contract of %s is `pure` and ensures fresh(result...): inconsistent for repeated calls", en.Line, ct.Key)
			}
		}
	}
	return nil
}

func (eng *Engine) computePurity() {
	changed := true
	for _, fi := range eng.funcs {
		fi.pure = fi.Decl.Body != nil
	}
	for changed {
		changed = false
		for _, fi := range eng.funcs {
			if !fi.pure {
				continue
			}
			if !eng.bodyPure(fi) {
				fi.pure = false
				changed = true
			}
		}
	}
}

func (eng *Engine) bodyPure(fi *FuncInfo) bool {
	info := fi.Pkg.TypesInfo
	pure := true
	var lhsHeap func(e ast.Expr) bool
	lhsHeap = func(e ast.Expr) bool {
		switch l := e.(type) {
		case *ast.Ident:
			if o, ok := info.ObjectOf(l).(*types.Var); ok && o.Pkg() != nil && o.Parent() == o.Pkg().Scope() {
				return true
			}
			return false
		case *ast.ParenExpr:
			return lhsHeap(l.X)
		case *ast.SelectorExpr:
			if t := info.TypeOf(l.X); t != nil && isPointer(t) {
				return true
			}
			if s := info.Selections[l]; s != nil && s.Indirect() {
				return true
			}
			return lhsHeap(l.X)
		case *ast.IndexExpr:
			if t := info.TypeOf(l.X); t != nil {
				switch t.Underlying().(type) {
				case *types.Slice, *types.Map, *types.Pointer:
					return true
				}
			}
			return lhsHeap(l.X)
		case *ast.StarExpr:
			return true
		}
		return true
	}
	ast.Inspect(fi.Decl.Body, func(n ast.Node) bool {
		if !pure {
			return false
		}
		switch a := n.(type) {
		case *ast.AssignStmt:
			for _, l := range a.Lhs {
				if lhsHeap(l) {
					pure = false
				}
			}
		case *ast.IncDecStmt:
			if lhsHeap(a.X) {
				pure = false
			}
		case *ast.GoStmt, *ast.DeferStmt, *ast.SendStmt:
			pure = false
		case *ast.CallExpr:
			if tv, ok := info.Types[a.Fun]; ok && tv.IsType() {
				return true
			}
			var obj types.Object
			switch f := unparen(a.Fun).(type) {
			case *ast.Ident:
				obj = info.ObjectOf(f)
			case *ast.SelectorExpr:
				obj = info.ObjectOf(f.Sel)
			}
			switch o := obj.(type) {
			case *types.Builtin:
				switch o.Name() {
				case "append", "copy", "delete", "clear", "close":
					pure = false
				}
			case *types.Func:
				if o.Pkg() != nil {
					switch o.Pkg().Path() {
					case "math", "math/bits", "strconv", "unicode", "unicode/utf8", "strings", "fmt", "sort", "image/color":
						if o.Pkg().Path() == "sort" {
							pure = false
						}
						if o.Pkg().Path() == "fmt" && !strings.HasPrefix(o.Name(), "Sprint") && o.Name() != "Errorf" {
							pure = false
						}
						return true
					}
				}
				if isSpecHelper(o) {
					return true
				}
				c := eng.funcs[o.Origin()]
				if c == nil || !c.pure {
					pure = false
				}
			case *types.Var:
				// a closure bound to a local variable of this function: its literal body is part of the inspected body
				if !(o.Pos() >= fi.Decl.Body.Pos() && o.Pos() <= fi.Decl.Body.End()) {
					pure = false
				}
			default:
				pure = false
			}
		}
		return true
	})
	return pure
}

func newInfo() *types.Info {
	return &types.Info{
		Types:      map[ast.Expr]types.TypeAndValue{},
		Defs:       map[*ast.Ident]types.Object{},
		Uses:       map[*ast.Ident]types.Object{},
		Selections: map[*ast.SelectorExpr]*types.Selection{},
		Instances:  map[*ast.Ident]types.Instance{},
		Implicits:  map[ast.Node]types.Object{},
	}
}

// ---- verifying one function ----

type FuncResult struct {
	Key        string
	Obls       []*Obligation
	Notes      []string
	Abstracted []string
	Used       []string // contracts of callees used
	Paths      int
	Err        string
}

func (eng *Engine) verifyFunc(ct *Contract) (res *FuncResult) {
	fi := ct.Fn
	res = &FuncResult{Key: fi.Pkg.Types.Name() + "." + fi.Key}
	defer func() {
		if r := recover(); r != nil {
			res.Err = fmt.Sprintf("engine panic: %v", r)
			if os.Getenv("GOVC_DEBUG") != "" {
				panic(r)
			}
		}
	}()
	if ct.CaseVar == "" {
		eng.verifyFuncCase(ct, res, -1)
		return res
	}
	for k := range ct.CaseVals {
		eng.verifyFuncCase(ct, res, k)
	}
	eng.verifyFuncCase(ct, res, len(ct.CaseVals)) // exhaustiveness
	return res
}

// verifyFuncCase runs the symbolic execution once. caseIdx<0: no case split. 0..n-1: the case variable is
// bound to the k-th literal. n: only the exhaustiveness obligation (requires => var is one of the literals).
func (eng *Engine) verifyFuncCase(ct *Contract, res *FuncResult, caseIdx int) {
	fi := ct.Fn
	x := &Exec{eng: eng, top: fi, usedContracts: map[string]bool{}, curProps: ct.Props, splitBudget: ct.Split}
	f := &Frame{fi: fi, info: fi.Pkg.TypesInfo, contract: ct}
	x.frames = []*Frame{f}
	s := &State{env: map[types.Object]*Term{}, heap: map[string]*Term{}}
	// allocation counters
	x.heapGet(s, "$alloc", SInt)
	x.heapGet(s, "$balloc", SInt)
	s.assume(Cmp("<", IntLit(0), s.heap["$alloc"]))
	s.assume(Cmp("<", IntLit(0), s.heap["$balloc"]))
	s.assume(And(Cmp("<", RealLitF(3.14159), PI), Cmp("<", PI, RealLitF(3.1416))))
	// parameters
	info := fi.Pkg.TypesInfo
	var caseObj types.Object
	bind := func(fl *ast.FieldList, isResult bool) {
		if fl == nil {
			return
		}
		for _, fld := range fl.List {
			for _, nm := range fld.Names {
				obj := info.Defs[nm]
				if obj == nil {
					continue
				}
				if isResult {
					s.env[obj] = x.zero(obj.Type())
					f.results = append(f.results, obj)
				} else {
					s.env[obj] = x.havocParam(s, obj)
					f.paramObjs = append(f.paramObjs, obj)
					if nm.Name == ct.CaseVar {
						caseObj = obj
					}
				}
			}
		}
	}
	bind(fi.Decl.Recv, false)
	bind(fi.Decl.Type.Params, false)
	bind(fi.Decl.Type.Results, true)
	suffix := ""
	var caseLits []*Term
	if ct.CaseVar != "" {
		if caseObj == nil {
			panic("cases: no parameter named " + ct.CaseVar)
		}
		for _, v := range ct.CaseVals {
			r, ok := new(big.Rat).SetString(v)
			if !ok {
				panic("cases: bad literal " + v)
			}
			if eng.tm.sortOf(caseObj.Type()) == SReal {
				caseLits = append(caseLits, RealLit(r))
			} else {
				caseLits = append(caseLits, IntLitBig(r.Num()))
			}
		}
		if caseIdx < len(caseLits) {
			suffix = fmt.Sprintf(".case%d", caseIdx+1)
		}
	}
	// axioms about globals (all packages: globals of canvas are read from renderers too)
	for _, p := range eng.pkgs {
		for _, ax := range eng.axioms[p.PkgPath] {
			if strings.HasPrefix(ax.Kind, "typeinv:") || ax.Kind == "globalwrite" {
				continue
			}
			x.clauseInfo = append(x.clauseInfo, ax.Info)
			x.frames = append(x.frames, &Frame{fi: fi, info: p.TypesInfo, inlined: true})
			// "Global == literal" binds the global's entry value directly
			done := false
			if be, ok := ax.Expr.(*ast.BinaryExpr); ok && be.Op == token.EQL {
				if id, ok := be.X.(*ast.Ident); ok {
					if gv, ok := x.objOf(id).(*types.Var); ok && x.isGlobal(gv) {
						if _, has := s.heap[x.globalName(gv)]; !has {
							x.heapSet(s, x.globalName(gv), x.eval(s, be.Y))
							done = true
						}
					}
				}
			}
			if !done {
				s.assume(x.evalCond(s, ax.Expr))
			}
			x.frames = x.frames[:len(x.frames)-1]
			x.clauseInfo = x.clauseInfo[:len(x.clauseInfo)-1]
		}
	}
	// requires
	entryEnv := map[types.Object]*Term{}
	for k, v := range s.env {
		entryEnv[k] = v
	}
	for _, rq := range ct.Requires {
		s.assume(x.evalClauseIn(s, entryEnv, fi, rq, nil, s))
	}
	if ct.CaseVar != "" && caseIdx == len(caseLits) {
		// exhaustiveness of the case split
		var alts []*Term
		for _, l := range caseLits {
			alts = append(alts, Eq(s.env[caseObj], l))
		}
		x.obligeNamed(s, fi.Key+"/cases-exhaustive", "requires", Or(alts...), x.pos(fi.Decl.Pos()), "cases "+ct.CaseVar+" "+strings.Join(ct.CaseVals, " "))
		res.Obls = append(res.Obls, x.obls...)
		return
	}
	if ct.CaseVar != "" {
		// substitute the literal for the parameter symbol everywhere
		lit := caseLits[caseIdx]
		sub := map[*Term]*Term{s.env[caseObj]: lit}
		for i, a := range s.assumes {
			s.assumes[i] = Substitute(a, sub)
		}
		s.env[caseObj] = lit
		entryEnv[caseObj] = lit
	}
	entry := s.clone()
	f.entry = entry
	x.oldStates = []*State{entry}
	// vacuity probe: requires must be satisfiable
	x.obls = append(x.obls, &Obligation{Name: fi.Key + "/vacuity" + suffix, Kind: "vacuity", Func: fi.Key, Hyps: append([]*Term(nil), s.assumes...), Goal: nil, Pos: x.pos(fi.Decl.Pos()), Text: "preconditions satisfiable", fi: fi, Props: ct.Props})
	if ct.Trusted == "" {
		for _, out := range x.execBlockM([]*State{s}, fi.Decl.Body.List) {
			if out != nil && !out.dead {
				var vals []*Term
				for _, r := range f.results {
					vals = append(vals, out.env[r])
				}
				f.rets = append(f.rets, &RetState{s: out, vals: vals})
			}
		}
		if os.Getenv("GOVC_TRACE") != "" {
			for ri, r := range f.rets {
				fmt.Fprintf(os.Stderr, "ret%d logBad=%v log=%q\n", ri+1, r.s.logBad, r.s.log)
			}
		}
		// thorough tier: the path condition at each return must be satisfiable (a contradictory callee contract or
		// invariant would make every postcondition on that path vacuously true); undecided probes are inconclusive.
		// With many returns (path splitting) only the first 24 are probed.
		if thoroughTier {
			for ri, r := range f.rets {
				if ri >= 24 {
					break
				}
				x.obls = append(x.obls, &Obligation{Name: fmt.Sprintf("%s/ret%d.reach", fi.Key, ri+1), Kind: "vacuity", Func: fi.Key,
					Hyps: append([]*Term(nil), r.s.assumes...), Goal: nil, Pos: x.pos(fi.Decl.Pos()), Text: "path condition at the return satisfiable", fi: fi, Props: ct.Props})
			}
		}
		// ensures at every return
		for ri, r := range f.rets {
			for _, en := range ct.Ensures {
				x.goalMode = true
				g := x.evalClauseIn(r.s, entryEnv, fi, en, r.vals, entry)
				x.goalMode = false
				name := fmt.Sprintf("%s/ensures#%d", fi.Key, en.Ord)
				if len(f.rets) > 1 {
					name = fmt.Sprintf("%s/ensures#%d.ret%d", fi.Key, en.Ord, ri+1)
				}
				x.curClause = en
				x.obligeNamed(r.s, name, "ensures", g, en.Line, en.Text)
				x.curClause = nil
			}
		}
		if ct.HasAssign {
			for ri, r := range f.rets {
				x.checkFrame(r.s, entry, ct, entryEnv, ri, len(f.rets))
			}
		}
		res.Paths += len(f.rets)
	}
	if suffix != "" {
		for _, o := range x.obls {
			if !strings.HasSuffix(o.Name, suffix) {
				o.Name += suffix
			}
		}
	}
	res.Obls = append(res.Obls, x.obls...)
	res.Obls = append(res.Obls, x.sideObls...)
	res.Notes = append(res.Notes, x.notes...)
	seen := map[string]bool{}
	for _, a := range res.Abstracted {
		seen[a] = true
	}
	for k := range x.abstracted {
		if !seen[k] {
			res.Abstracted = append(res.Abstracted, k)
		}
	}
	sort.Strings(res.Abstracted)
	seenU := map[string]bool{}
	for _, a := range res.Used {
		seenU[a] = true
	}
	for k := range x.usedContracts {
		if !seenU[k] {
			res.Used = append(res.Used, k)
		}
	}
	sort.Strings(res.Used)
}

func (r *FuncResult) shortKey(fi *FuncInfo) string { return fi.Key }

func (x *Exec) havocParam(s *State, obj types.Object) *Term {
	v := Var("p_"+sanitizeSym(obj.Name()), x.eng.tm.sortOf(obj.Type()))
	s.assume(x.typeInv(s, v, obj.Type(), 0))
	x.assumeObjInv(s, v, obj.Type())
	return v
}

// checkNewObjInv: the `typeinvnew` invariants of T are obligations for an object just built by &T{...}
func (x *Exec) checkNewObjInv(s *State, ref *Term, t types.Type, pos token.Pos) {
	if x.dry > 0 || x.inObjInv {
		return
	}
	invs := x.eng.typeInvs[types.TypeString(t, nil)]
	for _, ti := range invs {
		if !ti.c.Checked {
			continue
		}
		fl := ti.c.Expr.(*ast.FuncLit)
		self := ti.c.Info.Defs[fl.Type.Params.List[0].Names[0]]
		saved, had := s.env[self]
		s.env[self] = ref
		x.clauseInfo = append(x.clauseInfo, ti.c.Info)
		x.frames = append(x.frames, &Frame{fi: x.frames[0].fi, info: ti.pkg.TypesInfo, inlined: true})
		x.inObjInv = true
		x.dry++
		c := s.clone()
		g := x.evalCond(c, fl.Body.List[0].(*ast.ReturnStmt).Results[0])
		x.dry--
		x.inObjInv = false
		x.frames = x.frames[:len(x.frames)-1]
		x.clauseInfo = x.clauseInfo[:len(x.clauseInfo)-1]
		if had {
			s.env[self] = saved
		} else {
			delete(s.env, self)
		}
		for k, hv := range c.heap {
			if _, ok := s.heap[k]; !ok {
				s.heap[k] = hv
			}
		}
		s.assumes = c.assumes
		x.oblige(s, "typeinv", g, pos, "object invariant of the new "+types.TypeString(t, nil)+": "+ti.c.Text)
	}
}

// assumeObjInv assumes the declared object invariants (//@ typeinv) of *T for the reference v (if non-nil).
// These are assumptions about the data structure (listed in the evidence), not proved globally.
func (x *Exec) assumeObjInv(s *State, v *Term, t types.Type) {
	pt, ok := t.Underlying().(*types.Pointer)
	if !ok || x.inObjInv || v.hasBound {
		return
	}
	invs := x.eng.typeInvs[types.TypeString(pt.Elem(), nil)]
	if len(invs) == 0 {
		return
	}
	key := fmt.Sprintf("%d", v.id)
	if x.objInvSeen == nil {
		x.objInvSeen = map[string]bool{}
	}
	if x.objInvSeen[key] {
		// still add: the state may differ; cheap duplicates are filtered by assume()
	}
	x.objInvSeen[key] = true
	x.inObjInv = true
	defer func() { x.inObjInv = false }()
	for _, ti := range invs {
		fl := ti.c.Expr.(*ast.FuncLit)
		self := ti.c.Info.Defs[fl.Type.Params.List[0].Names[0]]
		saved, had := s.env[self]
		s.env[self] = v
		x.clauseInfo = append(x.clauseInfo, ti.c.Info)
		x.frames = append(x.frames, &Frame{fi: x.frames[0].fi, info: ti.pkg.TypesInfo, inlined: true})
		x.dry++
		c := s.clone()
		c.assume(Not(Eq(v, IntLit(0))))
		t := x.evalCond(c, fl.Body.List[0].(*ast.ReturnStmt).Results[0])
		x.dry--
		x.frames = x.frames[:len(x.frames)-1]
		x.clauseInfo = x.clauseInfo[:len(x.clauseInfo)-1]
		if had {
			s.env[self] = saved
		} else {
			delete(s.env, self)
		}
		for k, hv := range c.heap {
			if _, ok := s.heap[k]; !ok {
				s.heap[k] = hv
			}
		}
		s.assume(Implies(Not(Eq(v, IntLit(0))), t))
		x.eng.usedTypeInv[ti.c.Kind+": "+ti.c.Text] = true
	}
}

// ---- static call information for the ghost call log ----

type callInfo struct {
	callees map[*FuncInfo]bool // module functions that may be called (transitively)
	unknown bool               // makes a call whose target is not statically known (interface / function value)
}

// callsOf: the module functions fi may call, transitively (conservative: a call through an interface or a function
// value whose target is not a library function sets unknown)
func (eng *Engine) callsOf(fi *FuncInfo) *callInfo {
	if eng.callInfos == nil {
		eng.callInfos = map[*FuncInfo]*callInfo{}
	}
	if ci, ok := eng.callInfos[fi]; ok {
		return ci
	}
	ci := &callInfo{callees: map[*FuncInfo]bool{}}
	eng.callInfos[fi] = ci // cycles: the partial result is completed below
	if fi.Decl == nil || fi.Decl.Body == nil {
		ci.unknown = true
		return ci
	}
	info := fi.Pkg.TypesInfo
	ast.Inspect(fi.Decl.Body, func(n ast.Node) bool {
		call, ok := n.(*ast.CallExpr)
		if !ok {
			return true
		}
		if tv, ok := info.Types[call.Fun]; ok && tv.IsType() {
			return true
		}
		var obj types.Object
		switch f := unparen(call.Fun).(type) {
		case *ast.Ident:
			obj = info.ObjectOf(f)
		case *ast.SelectorExpr:
			obj = info.ObjectOf(f.Sel)
		case *ast.IndexExpr:
			if id, ok := f.X.(*ast.Ident); ok {
				obj = info.ObjectOf(id)
			}
		}
		switch o := obj.(type) {
		case *types.Builtin, nil:
			if obj == nil {
				ci.unknown = true
			}
		case *types.Func:
			if c := eng.funcs[o.Origin()]; c != nil {
				ci.callees[c] = true
				sub := eng.callsOf(c)
				for k := range sub.callees {
					ci.callees[k] = true
				}
				if sub.unknown {
					ci.unknown = true
				}
			} else if sig, ok := o.Type().(*types.Signature); ok && sig.Recv() != nil && isInterface(sig.Recv().Type()) && o.Pkg() != nil && strings.Contains(o.Pkg().Path(), "tdewolff/canvas") {
				ci.unknown = true // interface of the module: any implementation
			}
		default:
			ci.unknown = true // function value
		}
		return true
	})
	return ci
}
