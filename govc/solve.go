package main

import (
	"bytes"
	"context"
	"fmt"
	"os"
	"os/exec"
	"path/filepath"
	"strings"
	"sync"
	"time"
)

type SolveResult struct {
	Status string // proved | failed | unknown | vacuous | nonvacuous
	Solver string
	Ms     int64
	Model  string
	Raw    string
	Nodes  int
	Query  string // path of the query file if kept
}

type solverSpec struct {
	name string
	cmd  func(file string, timeout int) []string
	pre  string
}

var solvers = []solverSpec{
	{"z3-new-5.1.0", func(f string, t int) []string { return []string{"z3-new", fmt.Sprintf("-T:%d", t), f} }, ""},
	{"z3-4.8.12", func(f string, t int) []string { return []string{"z3", fmt.Sprintf("-T:%d", t), f} }, ""},
	{"cvc5-1.0.3", func(f string, t int) []string {
		return []string{"cvc5", "--produce-models", fmt.Sprintf("--tlimit=%d", t*1000), f}
	}, "(set-logic ALL)\n"},
}

func preludeFor(usedUF []string) string {
	var b strings.Builder
	wf := false
	for _, n := range usedUF {
		if n == "wfp" || n == "bnd" {
			wf = true
		}
	}
	if wf {
		b.WriteString(wfDefs)
		if len(usedUF) > 0 {
			// both predicates must be declared before the axioms
			need := map[string]bool{"wfp": true, "bnd": true}
			for _, n := range usedUF {
				delete(need, n)
			}
			for n := range need {
				usedUF = append(usedUF, n)
			}
		}
	}
	defer func() {}()
	for _, n := range usedUF {
		d := ufDecls[n]
		b.WriteString("(declare-fun " + n + " (")
		for i, a := range d.args {
			if i > 0 {
				b.WriteString(" ")
			}
			b.WriteString(a.String())
		}
		b.WriteString(") " + d.res.String() + ")\n")
	}
	if wf {
		b.WriteString(wfPrelude)
	}
	return b.String()
}

func usedUFs(ts []*Term) []string {
	seen := map[*Term]bool{}
	used := map[string]bool{}
	var rec func(t *Term)
	rec = func(t *Term) {
		if seen[t] {
			return
		}
		seen[t] = true
		if t.K == TApp {
			if _, ok := ufDecls[t.Op]; ok {
				used[t.Op] = true
			}
		}
		for _, a := range t.Args {
			rec(a)
		}
	}
	for _, t := range ts {
		if t != nil {
			rec(t)
		}
	}
	var out []string
	for _, n := range ufOrder {
		if used[n] {
			out = append(out, n)
		}
	}
	return out
}

func runSolver(ctx context.Context, sp solverSpec, file string, timeout int) (string, string, time.Duration) {
	args := sp.cmd(file, timeout)
	start := time.Now()
	cmd := exec.CommandContext(ctx, args[0], args[1:]...)
	var out bytes.Buffer
	cmd.Stdout = &out
	cmd.Stderr = &out
	cmd.Run()
	d := time.Since(start)
	txt := out.String()
	first := strings.TrimSpace(strings.SplitN(txt, "\n", 2)[0])
	return first, txt, d
}

// solve races the solvers on one obligation
func solve(o *Obligation, dir string, timeout int, keep bool) *SolveResult {
	if o.Trivial {
		return &SolveResult{Status: "proved", Solver: "simplifier"}
	}
	all := append(append([]*Term(nil), o.Hyps...), o.Goal)
	prelude := preludeFor(usedUFs(all))
	q, nodes := BuildQuery(prelude, o.Hyps, o.Goal, true)
	base := filepath.Join(dir, sanitizeFile(o.Name))
	type ans struct {
		first, txt string
		d          time.Duration
		sp         solverSpec
	}
	ctx, cancel := context.WithCancel(context.Background())
	defer cancel()
	ch := make(chan ans, len(solvers))
	if o.Goal == nil && timeout > 3 {
		timeout = 3
	}
	launch := func(sp solverSpec) {
		file := base + "." + sp.name + ".smt2"
		os.WriteFile(file, []byte(sp.pre+q), 0o644)
		go func() {
			first, txt, d := runSolver(ctx, sp, file, timeout)
			ch <- ans{first, txt, d, sp}
		}()
	}
	launch(solvers[0])
	pending := 1
	launchedAll := false
	timer := time.NewTimer(1500 * time.Millisecond)
	defer timer.Stop()
	res := &SolveResult{Status: "unknown", Nodes: nodes}
	var raws []string
	want := "unsat"
	if o.Goal == nil {
		want = "sat"
	}
	for pending > 0 {
		select {
		case <-timer.C:
			if !launchedAll {
				launchedAll = true
				for _, sp := range solvers[1:] {
					launch(sp)
					pending++
				}
			}
		case a := <-ch:
			pending--
			raws = append(raws, a.sp.name+": "+firstLines(a.txt, 3))
			if a.first == "unsat" || a.first == "sat" {
				res.Solver = a.sp.name
				res.Ms = a.d.Milliseconds()
				if o.Goal == nil {
					if a.first == "sat" {
						res.Status = "nonvacuous"
					} else {
						res.Status = "vacuous"
					}
				} else if a.first == "unsat" {
					res.Status = "proved"
				} else {
					res.Status = "failed"
					res.Model = a.txt
				}
				_ = want
				cancel()
				if !keep && res.Status != "failed" {
					cleanup(base)
				} else {
					res.Query = base + "." + a.sp.name + ".smt2"
				}
				res.Raw = strings.Join(raws, " | ")
				return res
			}
			if !launchedAll {
				launchedAll = true
				for _, sp := range solvers[1:] {
					launch(sp)
					pending++
				}
			}
		}
	}
	res.Raw = strings.Join(raws, " | ")
	res.Query = base + "." + solvers[0].name + ".smt2"
	return res
}

func firstLines(s string, n int) string {
	ls := strings.Split(strings.TrimSpace(s), "\n")
	if len(ls) > n {
		ls = ls[:n]
	}
	return strings.Join(ls, " / ")
}

func cleanup(base string) {
	for _, sp := range solvers {
		os.Remove(base + "." + sp.name + ".smt2")
	}
}

func sanitizeFile(s string) string {
	var b strings.Builder
	for _, r := range s {
		if r >= 'a' && r <= 'z' || r >= 'A' && r <= 'Z' || r >= '0' && r <= '9' || r == '_' || r == '-' || r == '.' || r == '#' && false {
			b.WriteRune(r)
		} else {
			b.WriteRune('_')
		}
	}
	return b.String()
}

func solveAll(obls []*Obligation, dir string, timeout int, workers int, keep bool) {
	var wg sync.WaitGroup
	ch := make(chan *Obligation)
	for i := 0; i < workers; i++ {
		wg.Add(1)
		go func() {
			defer wg.Done()
			for o := range ch {
				o.Result = solve(o, dir, timeout, keep)
			}
		}()
	}
	for _, o := range obls {
		ch <- o
	}
	close(ch)
	wg.Wait()
}
