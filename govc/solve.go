package main

import (
	"bytes"
	"context"
	"fmt"
	"os"
	"os/exec"
	"path/filepath"
	"strings"
	"sync"
	"time"
)

type SolveResult struct {
	Status string // proved | failed | unknown | vacuous | nonvacuous
	Solver string
	Ms     int64
	Model  string
	Raw    string
	Nodes  int
	Query  string // path of the query file if kept
}

type solverSpec struct {
	name string
	cmd  func(file string, timeout int) []string
	pre  string
}

var solvers = []solverSpec{
	{"z3-new-5.1.0", func(f string, t int) []string { return []string{"z3-new", fmt.Sprintf("-T:%d", t), f} }, ""},
	{"z3-4.8.12", func(f string, t int) []string { return []string{"z3", fmt.Sprintf("-T:%d", t), f} }, ""},
	{"cvc5-1.0.3", func(f string, t int) []string {
		return []string{"cvc5", "--produce-models", fmt.Sprintf("--tlimit=%d", t*1000), f}
	}, "(set-logic ALL)\n"},
}

func preludeFor(usedUF []string) string {
	var b strings.Builder
	wf := false
	for _, n := range usedUF {
		if n == "wfp" || n == "bnd" {
			wf = true
		}
	}
	if wf {
		b.WriteString(wfDefs)
		if len(usedUF) > 0 {
			// both predicates must be declared before the axioms
			need := map[string]bool{"wfp": true, "bnd": true}
			for _, n := range usedUF {
				delete(need, n)
			}
			for n := range need {
				usedUF = append(usedUF, n)
			}
		}
	}
	defer func() {}()
	for _, n := range usedUF {
		d := ufDecls[n]
		b.WriteString("(declare-fun " + n + " (")
		for i, a := range d.args {
			if i > 0 {
				b.WriteString(" ")
			}
			b.WriteString(a.String())
		}
		b.WriteString(") " + d.res.String() + ")\n")
	}
	if wf {
		b.WriteString(wfPrelude)
	}
	return b.String()
}

func anyQuant(ts []*Term) bool {
	for _, t := range ts {
		if hasQuant(t) {
			return true
		}
	}
	return false
}

// mentionsWf: some term mentions the record-structure predicates wfp/bnd
func mentionsWf(ts []*Term) bool {
	for _, n := range usedUFs(ts) {
		if n == "wfp" || n == "bnd" {
			return true
		}
	}
	return false
}

func usedUFs(ts []*Term) []string {
	seen := map[*Term]bool{}
	used := map[string]bool{}
	var rec func(t *Term)
	rec = func(t *Term) {
		if seen[t] {
			return
		}
		seen[t] = true
		if t.K == TApp {
			if _, ok := ufDecls[t.Op]; ok {
				used[t.Op] = true
			}
		}
		for _, a := range t.Args {
			rec(a)
		}
	}
	for _, t := range ts {
		if t != nil {
			rec(t)
		}
	}
	var out []string
	for _, n := range ufOrder {
		if used[n] {
			out = append(out, n)
		}
	}
	return out
}

func runSolver(ctx context.Context, sp solverSpec, file string, timeout int) (string, string, time.Duration) {
	args := sp.cmd(file, timeout)
	start := time.Now()
	cmd := exec.CommandContext(ctx, args[0], args[1:]...)
	var out bytes.Buffer
	cmd.Stdout = &out
	cmd.Stderr = &out
	cmd.Run()
	d := time.Since(start)
	txt := out.String()
	first := ""
	for _, l := range strings.Split(txt, "\n") {
		l = strings.TrimSpace(l)
		if l == "sat" || l == "unsat" || l == "unknown" || l == "timeout" {
			first = l
			break
		}
	}
	if first == "" {
		first = strings.TrimSpace(strings.SplitN(txt, "\n", 2)[0])
	}
	return first, txt, d
}

// solve races the solvers on one obligation
func solve(o *Obligation, dir string, timeout int, keep bool) *SolveResult {
	if o.Trivial {
		return &SolveResult{Status: "proved", Solver: "simplifier"}
	}
	all := append(append([]*Term(nil), o.Hyps...), o.Goal)
	prelude := preludeFor(usedUFs(all))
	q, nodes := BuildQuery(prelude, o.Hyps, o.Goal, true)
	base := filepath.Join(dir, sanitizeFile(o.Name))
	type ans struct {
		first, txt string
		d          time.Duration
		sp         solverSpec
	}
	ctx, cancel := context.WithCancel(context.Background())
	defer cancel()
	ch := make(chan ans, len(solvers))
	if o.Goal == nil && timeout > 3 {
		timeout = 3
	}
	launch := func(sp solverSpec) {
		file := base + "." + sp.name + ".smt2"
		os.WriteFile(file, []byte(sp.pre+q), 0o644)
		go func() {
			first, txt, d := runSolver(ctx, sp, file, timeout)
			ch <- ans{first, txt, d, sp}
		}()
	}
	launch(solvers[0])
	pending := 1
	// most obligations are decided by the first solver within a fraction of a second: give it a head start before
	// the weakened variants (3-4 more solver processes per obligation) are launched
	var early *ans
	select {
	case a := <-ch:
		pending--
		early = &a
	case <-time.After(300 * time.Millisecond):
	}
	if early != nil && (early.first == "unsat" || early.first == "sat") {
		res := &SolveResult{Status: "unknown", Nodes: nodes, Solver: early.sp.name, Ms: early.d.Milliseconds()}
		if o.Goal == nil {
			if early.first == "sat" {
				res.Status = "nonvacuous"
			} else {
				res.Status = "vacuous"
			}
		} else if early.first == "unsat" {
			res.Status = "proved"
		} else {
			res.Status = "failed"
			res.Model = early.txt
		}
		if !keep && res.Status != "failed" {
			cleanup(base)
		} else {
			res.Query = base + "." + early.sp.name + ".smt2"
		}
		res.Raw = early.sp.name + ": " + firstLines(early.txt, 3)
		return res
	}
	// lean variant: drop quantified nonlinear hypotheses that stem from other contract clauses than the goal's
	if o.Goal != nil {
		var lean []*Term
		dropped := 0
		for _, h := range o.Hyps {
			if tag, ok := o.HypTags[h]; ok && tag != o.Tag && hasQuant(h) && hasNonlinear([]*Term{h}) {
				dropped++
				continue
			}
			lean = append(lean, h)
		}
		if l2, d2 := dropUnusedStoreEquiv(lean, o.Goal); d2 > 0 {
			lean = l2
			dropped += d2
		}
		if dropped > 0 {
			termMu.Lock()
			cache := map[*Term]*Term{}
			ah := make([]*Term, len(lean))
			for i, h := range lean {
				ah[i] = abstractNL(h, cache)
			}
			ag := abstractNL(o.Goal, cache)
			termMu.Unlock()
			aq, _ := BuildQuery(preludeFor(usedUFs(append(append([]*Term(nil), ah...), ag))), ah, ag, false)
			file := base + ".lean.smt2"
			os.WriteFile(file, []byte(aq), 0o644)
			sp := solverSpec{name: "z3-new-5.1.0+lean", cmd: solvers[0].cmd}
			go func() {
				first, txt, d := runSolver(ctx, sp, file, timeout)
				if first != "unsat" {
					first = "unknown"
				}
				ch <- ans{first, txt, d, sp}
			}()
			pending++
			if !keep {
				defer os.Remove(file)
			}
		}
	}
	// qi variant: the same full query with restrained quantifier instantiation (no model-based instantiation, lower
	// eager threshold): decides goals with many nested quantified hypotheses (heap-order pairs) several times faster;
	// only `unsat` is taken from it
	if o.Goal != nil && hasQuant(o.Goal) || o.Goal != nil && anyQuant(o.Hyps) {
		file := base + "." + solvers[0].name + ".smt2"
		sp := solverSpec{name: "z3-new-5.1.0+qi", cmd: func(f string, t int) []string {
			return []string{"z3-new", fmt.Sprintf("-T:%d", t), "smt.qi.eager_threshold=50", "smt.mbqi=false", f}
		}}
		go func() {
			first, txt, d := runSolver(ctx, sp, file, timeout)
			if first != "unsat" {
				first = "unknown"
			}
			ch <- ans{first, txt, d, sp}
		}()
		pending++
	}
	// nowf variant: a goal that does not speak about record structure (wfp/bnd) is tried without the hypotheses that
	// do (the wf rule instances drown frame-style goals in instantiations); dropping hypotheses is sound
	if o.Goal != nil {
		var kept []*Term
		droppedWf := 0
		for _, h := range o.Hyps {
			if mentionsWf([]*Term{h}) {
				droppedWf++
				continue
			}
			kept = append(kept, h)
		}
		if droppedWf >= 5 {
			wq, _ := BuildQuery(preludeFor(usedUFs(append(append([]*Term(nil), kept...), o.Goal))), kept, o.Goal, false)
			file := base + ".nowf.smt2"
			os.WriteFile(file, []byte(wq), 0o644)
			sp := solverSpec{name: "z3-new-5.1.0+nowf", cmd: solvers[0].cmd}
			go func() {
				first, txt, d := runSolver(ctx, sp, file, timeout)
				if first != "unsat" {
					first = "unknown"
				}
				ch <- ans{first, txt, d, sp}
			}()
			pending++
			if !keep {
				defer os.Remove(file)
			}
		}
	}
	// sound abstraction: nonlinear products as an uninterpreted function (unsat there => unsat in the reals)
	if o.Goal != nil && hasNonlinear(all) {
		termMu.Lock()
		ah := make([]*Term, len(o.Hyps))
		cache := map[*Term]*Term{}
		for i, h := range o.Hyps {
			ah[i] = abstractNL(h, cache)
		}
		ag := abstractNL(o.Goal, cache)
		termMu.Unlock()
		aq, _ := BuildQuery(preludeFor(usedUFs(append(append([]*Term(nil), ah...), ag))), ah, ag, false)
		file := base + ".abs.smt2"
		os.WriteFile(file, []byte(aq), 0o644)
		sp := solverSpec{name: "z3-new-5.1.0+nlabs", cmd: solvers[0].cmd}
		go func() {
			first, txt, d := runSolver(ctx, sp, file, timeout)
			if first != "unsat" {
				first = "unknown" // a model of the abstraction means nothing
			}
			ch <- ans{first, txt, d, sp}
		}()
		pending++
		if !keep {
			defer os.Remove(file)
		}
	}
	// nlqf variant: products abstracted AND quantified hypotheses dropped AND unrelated hypotheses dropped: a
	// quantifier-free linear problem; decides record-frame style goals that drown in instantiations otherwise
	if o.Goal != nil && hasNonlinear(all) && !hasQuant(o.Goal) {
		termMu.Lock()
		cache := map[*Term]*Term{}
		var ah []*Term
		for _, h := range o.Hyps {
			if hasQuant(h) {
				continue
			}
			ah = append(ah, abstractNL(h, cache))
		}
		ag := abstractNL(o.Goal, cache)
		ah = coneOfInfluence(ah, ag)
		termMu.Unlock()
		aq, _ := BuildQuery(preludeFor(usedUFs(append(append([]*Term(nil), ah...), ag))), ah, ag, false)
		file := base + ".nlqf.smt2"
		os.WriteFile(file, []byte(aq), 0o644)
		sp := solverSpec{name: "z3-new-5.1.0+nlqf", cmd: solvers[0].cmd}
		go func() {
			first, txt, d := runSolver(ctx, sp, file, timeout)
			if first != "unsat" {
				first = "unknown"
			}
			ch <- ans{first, txt, d, sp}
		}()
		pending++
		if !keep {
			defer os.Remove(file)
		}
	}
	// flat variant: datatype constants expanded to scalars, reciprocals ackermannized, quantified hypotheses dropped
	if o.Goal != nil && hasNonlinear(all) {
		termMu.Lock()
		fh, fg, ok := flatten(o.Hyps, o.Goal)
		termMu.Unlock()
		if ok {
			fq, _ := BuildQuery(preludeFor(usedUFs(append(append([]*Term(nil), fh...), fg))), fh, fg, false)
			file := base + ".flat.smt2"
			os.WriteFile(file, []byte(fq), 0o644)
			for _, sp := range []solverSpec{{name: "z3-new-5.1.0+flat", cmd: solvers[0].cmd}, {name: "z3-4.8.12+flat", cmd: solvers[1].cmd}} {
				sp := sp
				go func() {
					first, txt, d := runSolver(ctx, sp, file, timeout)
					if first != "unsat" {
						first = "unknown" // a model of the weakened problem means nothing
					}
					ch <- ans{first, txt, d, sp}
				}()
				pending++
			}
			if !keep {
				defer os.Remove(file)
			}
		}
	}
	launchedAll := false
	timer := time.NewTimer(3000 * time.Millisecond)
	defer timer.Stop()
	res := &SolveResult{Status: "unknown", Nodes: nodes}
	var raws []string
	if early != nil {
		raws = append(raws, early.sp.name+": "+firstLines(early.txt, 3))
	}
	want := "unsat"
	if o.Goal == nil {
		want = "sat"
	}
	for pending > 0 {
		select {
		case <-timer.C:
			if !launchedAll {
				launchedAll = true
				for _, sp := range solvers[1:] {
					launch(sp)
					pending++
				}
			}
		case a := <-ch:
			pending--
			raws = append(raws, a.sp.name+": "+firstLines(a.txt, 3))
			if a.first == "unsat" || a.first == "sat" {
				res.Solver = a.sp.name
				res.Ms = a.d.Milliseconds()
				if o.Goal == nil {
					if a.first == "sat" {
						res.Status = "nonvacuous"
					} else {
						res.Status = "vacuous"
					}
				} else if a.first == "unsat" {
					res.Status = "proved"
				} else {
					res.Status = "failed"
					res.Model = a.txt
				}
				_ = want
				cancel()
				if !keep && res.Status != "failed" {
					cleanup(base)
				} else {
					res.Query = base + "." + a.sp.name + ".smt2"
				}
				res.Raw = strings.Join(raws, " | ")
				return res
			}
			if !launchedAll {
				launchedAll = true
				for _, sp := range solvers[1:] {
					launch(sp)
					pending++
				}
			}
		}
	}
	res.Raw = strings.Join(raws, " | ")
	res.Query = base + "." + solvers[0].name + ".smt2"
	return res
}

func firstLines(s string, n int) string {
	ls := strings.Split(strings.TrimSpace(s), "\n")
	if len(ls) > n {
		ls = ls[:n]
	}
	return strings.Join(ls, " / ")
}

func cleanup(base string) {
	for _, sp := range solvers {
		os.Remove(base + "." + sp.name + ".smt2")
	}
}

func sanitizeFile(s string) string {
	var b strings.Builder
	for _, r := range s {
		if r >= 'a' && r <= 'z' || r >= 'A' && r <= 'Z' || r >= '0' && r <= '9' || r == '_' || r == '-' || r == '.' || r == '#' && false {
			b.WriteRune(r)
		} else {
			b.WriteRune('_')
		}
	}
	return b.String()
}

func solveAll(obls []*Obligation, dir string, timeout int, workers int, keep bool) {
	var wg sync.WaitGroup
	ch := make(chan *Obligation)
	for i := 0; i < workers; i++ {
		wg.Add(1)
		go func() {
			defer wg.Done()
			for o := range ch {
				to := timeout
				if strings.HasPrefix(o.Kind, "unclaimed:") && to > 3 {
					// not part of the claim: a short attempt only (reported, never counted)
					to = 3
				}
				o.Result = solve(o, dir, to, keep)
			}
		}()
	}
	for _, o := range obls {
		if o.Result != nil {
			continue // already decided during symbolic execution (side obligations)
		}
		ch <- o
	}
	close(ch)
	wg.Wait()
}

var termMu sync.Mutex

func init() {
	declareUF("nlmul_R", []*Sort{SReal, SReal}, SReal)
	declareUF("nlmul_I", []*Sort{SInt, SInt}, SInt)
}

func isNL(t *Term) bool {
	if t.K != TApp || t.Op != "*" {
		return false
	}
	n := 0
	for _, a := range t.Args {
		if a.rat == nil {
			n++
		}
	}
	return n >= 2
}

func hasNonlinear(ts []*Term) bool {
	seen := map[*Term]bool{}
	var rec func(t *Term) bool
	rec = func(t *Term) bool {
		if t == nil || seen[t] {
			return false
		}
		seen[t] = true
		if isNL(t) {
			return true
		}
		for _, a := range t.Args {
			if rec(a) {
				return true
			}
		}
		return false
	}
	for _, t := range ts {
		if rec(t) {
			return true
		}
	}
	return false
}

func abstractNL(t *Term, cache map[*Term]*Term) *Term {
	if r, ok := cache[t]; ok {
		return r
	}
	if len(t.Args) == 0 {
		return t
	}
	args := make([]*Term, len(t.Args))
	changed := false
	for i, a := range t.Args {
		args[i] = abstractNL(a, cache)
		if args[i] != a {
			changed = true
		}
	}
	var r *Term
	if isNL(t) {
		// keep literal factors, abstract the product of the rest
		var lits, rest []*Term
		for _, a := range args {
			if a.rat != nil {
				lits = append(lits, a)
			} else {
				rest = append(rest, a)
			}
		}
		// canonical order for commutativity
		for i := 1; i < len(rest); i++ {
			for j := i; j > 0 && rest[j].id < rest[j-1].id; j-- {
				rest[j], rest[j-1] = rest[j-1], rest[j]
			}
		}
		acc := rest[0]
		for _, b := range rest[1:] {
			nm := "nlmul_R"
			if t.S == SInt {
				nm = "nlmul_I"
			}
			declareUF(nm, []*Sort{t.S, t.S}, t.S)
			acc = App(nm, t.S, acc, b)
		}
		r = acc
		for _, l := range lits {
			r = App("*", t.S, l, r)
		}
	} else if changed {
		if t.K == TQuant {
			nt := newTerm(TQuant, t.Op, SBool, args[0])
			nt.Bound = t.Bound
			for _, ps := range t.Pats {
				var np []*Term
				for _, q := range ps {
					np = append(np, abstractNL(q, cache))
				}
				nt.Pats = append(nt.Pats, np)
			}
			nt.hasBound = t.hasBound
			r = nt
		} else {
			r = App(t.Op, t.S, args...)
		}
	} else {
		r = t
	}
	cache[t] = r
	return r
}

func hasQuant(t *Term) bool {
	seen := map[*Term]bool{}
	var rec func(t *Term) bool
	rec = func(t *Term) bool {
		if seen[t] {
			return false
		}
		seen[t] = true
		if t.K == TQuant {
			return true
		}
		for _, a := range t.Args {
			if rec(a) {
				return true
			}
		}
		return false
	}
	return rec(t)
}

// quickSolve: single solver, short timeout (side conditions of engine rules)
func quickSolve(o *Obligation, dir string, timeout int) *SolveResult {
	all := append(append([]*Term(nil), o.Hyps...), o.Goal)
	termMu.Lock()
	cache := map[*Term]*Term{}
	ah := make([]*Term, len(o.Hyps))
	for i, h := range o.Hyps {
		ah[i] = abstractNL(h, cache)
	}
	ag := abstractNL(o.Goal, cache)
	termMu.Unlock()
	_ = all
	q, nodes := BuildQuery(preludeFor(usedUFs(append(append([]*Term(nil), ah...), ag))), ah, ag, false)
	file := filepath.Join(dir, "side.smt2")
	os.WriteFile(file, []byte(q), 0o644)
	start := time.Now()
	first, txt, _ := runSolver(context.Background(), solvers[0], file, timeout)
	res := &SolveResult{Status: "unknown", Nodes: nodes, Raw: firstLines(txt, 2), Ms: time.Since(start).Milliseconds()}
	if first == "unsat" {
		res.Status = "proved"
		res.Solver = solvers[0].name + "+nlabs"
	}
	return res
}
