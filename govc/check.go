package main

// govc check <prop> --tier quick|thorough : the per-property check behind MANIFEST.json.

import (
	"encoding/json"
	"flag"
	"fmt"
	"os"
	"os/exec"
	"path/filepath"
	"sort"
	"strconv"
	"strings"
	"time"
)

type KnownFinding struct {
	ID         string `json:"id"`
	Property   string `json:"property"`
	Status     string `json:"status"` // open | fixed
	Obligation string `json:"obligation,omitempty"`
	What       string `json:"what"`
	Witness    string `json:"witness,omitempty"` // Go test body that fails while the defect is present
	Package    string `json:"package,omitempty"` // package dir (relative to repo) for the witness test
	Commit     string `json:"commit,omitempty"`
	Line       string `json:"line,omitempty"` // "fixed: property=... <commit> <what>" for fixed entries
}

type Evidence struct {
	PropertyID  string                 `json:"property_id"`
	Tier        string                 `json:"tier"`
	Seed        int                    `json:"seed"`
	Level       string                 `json:"level"`
	Coverage    map[string]interface{} `json:"coverage"`
	Assumptions []string               `json:"assumptions"`
	WallS       float64                `json:"wall_s"`
	Violations  int                    `json:"violations"`
}

func isSafetyKind(k string) bool {
	switch k {
	case "index", "nil", "slice", "div", "panic", "typeassert", "make", "nilmap":
		return true
	}
	return false
}

func cmdCheck(args []string) {
	if len(args) < 1 {
		fmt.Fprintln(os.Stderr, "usage: govc check <prop> [--tier quick|thorough]")
		os.Exit(2)
	}
	prop := args[0]
	fs := flag.NewFlagSet("check", flag.ExitOnError)
	tier := fs.String("tier", "quick", "quick|thorough")
	repo := fs.String("repo", "/repo", "repository root")
	verif := fs.String("verif", "/verif", "verif root")
	noEvidence := fs.Bool("no-evidence", false, "do not write the evidence file (selftest runs)")
	fs.Parse(args[1:])
	if t := os.Getenv("VERIF_TIER"); t != "" && *tier == "" {
		*tier = t
	}
	seed := 0
	if s := os.Getenv("VERIF_SEED"); s != "" {
		seed, _ = strconv.Atoi(s)
	}
	start := time.Now()
	timeout := 60
	if *tier == "thorough" {
		thoroughTier = true
		timeout = 150
	}
	evPath := filepath.Join(*verif, "evidence", prop+".json")
	replayDir := filepath.Join(*verif, "replays", prop)
	os.MkdirAll(filepath.Dir(evPath), 0o755)
	os.RemoveAll(replayDir)

	violations := 0
	report := func(path string, noInput bool) {
		violations++
		line := fmt.Sprintf("VIOLATION property=%s replay=%s", prop, path)
		if noInput {
			line += " no-failing-input-found"
		}
		fmt.Println(line)
	}
	writeReplay := func(name string, content map[string]interface{}) string {
		os.MkdirAll(replayDir, 0o755)
		p := filepath.Join(replayDir, sanitizeFile(name)+".json")
		b, _ := json.MarshalIndent(content, "", " ")
		os.WriteFile(p, b, 0o644)
		return p
	}

	eng, err := loadEngine(*repo, allPatterns)
	if err != nil {
		// the tree does not load: every contract target is gone as far as the verifier can tell
		p := writeReplay("load-error", map[string]interface{}{"obligation": prop + "/load", "verifier_output": err.Error()})
		report(p, true)
		writeEvidence(evPath, *noEvidence, &Evidence{PropertyID: prop, Tier: *tier, Seed: seed, Level: "proof",
			Coverage:   map[string]interface{}{"obligations": 1, "discharged": 0, "checker_cmd": "govc check " + prop, "trusted_base": []string{}, "explanation": "load failed: " + err.Error()},
			WallS:      time.Since(start).Seconds(), Violations: 1})
		os.Exit(1)
	}
	dir, _ := os.MkdirTemp("/var/tmp", "govc.q.")
	defer os.RemoveAll(dir)

	var obls []*Obligation
	var funcs []*FuncReport
	var missing []string
	oblCt := map[*Obligation]*Contract{}
	for _, ct := range eng.ctList {
		if !hasProp(ct.Props, prop) {
			continue
		}
		if ct.Missing {
			missing = append(missing, ct.Pkg.Types.Name()+"."+ct.Key)
			continue
		}
		if ct.Fn.Decl.Body == nil {
			continue
		}
		fr := eng.verifyFunc(ct)
		funcs = append(funcs, &FuncReport{Key: fr.Key, Props: ct.Props, Trusted: ct.Trusted, Paths: fr.Paths, Notes: fr.Notes, Abstracted: fr.Abstracted, Used: fr.Used, Err: fr.Err, File: relPath(ct.Fn.File)})
		for _, o := range fr.Obls {
			o.Name = ct.Pkg.Types.Name() + "." + o.Name
			if reason, ok := unclaimedReason(ct, o.Name, o.Text); ok {
				o.Text = "[unclaimed: " + reason + "] " + o.Text
				o.Kind = "unclaimed:" + o.Kind
			}
			oblCt[o] = ct
		}
		obls = append(obls, fr.Obls...)
	}
	t0 := time.Now()
	solveAll(obls, dir, timeout, 10, false)
	// an undecided obligation (no model) may be a time-out caused by machine load: one retry with three times the
	// budget and fewer concurrent queries before it is reported
	var retry []*Obligation
	noRetry := os.Getenv("GOVC_NORETRY") != "" // seed sweeps: an undecided obligation is as good as a failed one
	for _, o := range obls {
		if !noRetry && o.Result != nil && o.Goal != nil && !strings.HasPrefix(o.Kind, "unclaimed:") && (o.Result.Status == "unknown" || o.Result.Status == "timeout") {
			o.Result = nil
			retry = append(retry, o)
		}
	}
	if len(retry) > 0 {
		fmt.Fprintf(os.Stderr, "govc check %s: %d undecided obligation(s), retrying with timeout %ds\n", prop, len(retry), 3*timeout)
		solveAll(retry, dir, 3*timeout, 4, false)
	}
	solverS := time.Since(t0).Seconds()

	// expected obligations (committed): guards against silently vanishing obligations
	expected := readLines(filepath.Join(*verif, "obligations", prop+".txt"))
	have := map[string]bool{}
	for _, o := range obls {
		have[o.Name] = true
	}
	kfs := loadKnownFindings(filepath.Join(*verif, "known_findings.json"))

	claimed, discharged := 0, 0
	vacuity := map[string]int{}
	var unclaimedOpen []string
	var samples []interface{}
	var perObl []map[string]interface{}
	bySolver := map[string]int{}
	// return-reachability probes (thorough tier): infeasible individual returns are normal under path splitting; only
	// a function none of whose probed returns is reachable has a contradictory contract/invariant
	retReach := map[string][2]int{} // func -> {reachable or undecided, unreachable}
	entryReach := map[string][]string{} // "<func>/loopN" -> statuses of the entry probes, one per analysis of the loop (in order)
	reachSeen := map[string]int{}
	for _, o := range obls {
		if o.Kind == "vacuity" && strings.HasSuffix(o.Name, ".reach") && strings.Contains(o.Name, "/ret") && o.Result != nil {
			c := retReach[o.Func]
			switch o.Result.Status {
			case "vacuous":
				c[1]++
			default:
				// reachable, or undecided (a probe that times out proves nothing either way)
				c[0]++
			}
			retReach[o.Func] = c
		}
		if o.Kind == "vacuity" && strings.HasSuffix(o.Name, ".entryreach") && o.Result != nil {
			k := strings.TrimSuffix(o.Name, ".entryreach")
			entryReach[k] = append(entryReach[k], o.Result.Status)
		}
	}
	for _, o := range obls {
		if o.Kind == "vacuity" && strings.HasSuffix(o.Name, ".reach") && strings.Contains(o.Name, "/ret") && o.Result != nil && o.Result.Status == "vacuous" {
			if c := retReach[o.Func]; c[0] > 0 {
				o.Result.Status = "unreachable-return" // informational
			}
		}
		// a loop that cannot be reached under the function's preconditions (dead code under the contract) has a vacuous
		// head probe for a benign reason: only a loop whose ENTRY is reachable and whose head state is contradictory
		// points at contradictory invariants
		if o.Kind == "vacuity" && strings.HasSuffix(o.Name, ".reach") && strings.Contains(o.Name, "/loop") && o.Result != nil {
			// the k-th head probe of a loop belongs to its k-th entry probe (a loop reached on several paths is analysed
			// once per path)
			k := strings.TrimSuffix(o.Name, ".reach")
			idx := reachSeen[k]
			reachSeen[k]++
			if o.Result.Status == "vacuous" {
				st := ""
				if idx < len(entryReach[k]) {
					st = entryReach[k][idx]
				}
				if st != "nonvacuous" {
					o.Result.Status = "unreachable-loop" // informational
				}
			}
		}
		if o.Kind == "vacuity" && strings.HasSuffix(o.Name, ".entryreach") && o.Result != nil {
			o.Result.Status = "nonvacuous-or-dead" // the entry probe itself is informational
		}
	}
	for _, o := range obls {
		r := o.Result
		ok := r.Status == "proved" || r.Status == "nonvacuous"
		if strings.HasPrefix(o.Kind, "unclaimed:") {
			if !ok {
				unclaimedOpen = append(unclaimedOpen, o.Name+" ("+r.Status+")")
			}
			continue
		}
		if o.Kind == "vacuity" {
			vacuity[r.Status]++
			if r.Status != "vacuous" {
				continue
			}
		}
		claimed++
		perObl = append(perObl, map[string]interface{}{"name": o.Name, "kind": o.Kind, "status": r.Status, "solver": r.Solver, "ms": r.Ms})
		if ok {
			discharged++
			bySolver[r.Solver]++
			if len(samples) < 6 {
				samples = append(samples, map[string]interface{}{"obligation": o.Name, "clause": o.Text, "at": o.Pos, "solver": r.Solver, "ms": r.Ms})
			}
			continue
		}
		// failed or unknown: known finding?
		if kf := matchFinding(kfs, prop, o.Name); kf != nil {
			fmt.Printf("KNOWN-FINDING: property=%s %s: %s\n", prop, kf.ID, kf.What)
			continue
		}
		// replay
		content := map[string]interface{}{
			"obligation": o.Name, "kind": o.Kind, "clause": o.Text, "at": o.Pos, "status": r.Status,
			"solver": r.Solver, "verifier_output": r.Raw,
		}
		confirmed := false
		if r.Status == "failed" && r.Model != "" {
			rp := replayObligation(eng, o, oblCt[o], r.Model, *repo)
			content["replay"] = rp
			confirmed = rp.Confirmed
			content["model"] = truncate(r.Model, 6000)
		}
		p := writeReplay(o.Name, content)
		report(p, !confirmed)
	}
	// whole-module global write frame (properties that declare //@ globalwrite <prop> ... clauses)
	{
		type allow struct{ v, fn, why string }
		var allows []allow
		declared := false
		for _, p := range eng.pkgs {
			for _, a := range eng.axioms[p.PkgPath] {
				if a.Kind != "globalwrite" {
					continue
				}
				f := strings.Fields(a.Text)
				if len(f) >= 4 && f[0] == prop && f[2] == "in" {
					declared = true
					allows = append(allows, allow{f[1], f[3], strings.Join(f[4:], " ")})
				} else if len(f) >= 1 && f[0] == prop {
					declared = true
				}
			}
		}
		if declared {
			writes := eng.collectGlobalWrites()
			fr := &FuncReport{Key: "module-wide global write frame", Props: []string{prop}, File: "(all non-test files of the loaded packages)"}
			funcs = append(funcs, fr)
			for _, w := range writes {
				ok := false
				why := ""
				for _, a := range allows {
					if a.v == w.Var && (a.fn == w.Func || a.fn == "*") {
						if strings.HasPrefix(a.why, "guarded") && !w.Locked {
							continue
						}
						if strings.HasPrefix(a.why, ": atomic") && !(w.TypePkg == "sync/atomic" && strings.HasPrefix(w.How, "pointer-receiver method")) {
							continue
						}
						ok = true
						why = a.why
					}
				}
				claimed++
				name := fmt.Sprintf("global-frame/%s@%s:%s", w.Var, w.Func, w.Pos[strings.LastIndex(w.Pos, ":")+1:])
				st := "proved"
				if !ok {
					st = "failed"
				}
				perObl = append(perObl, map[string]interface{}{"name": name, "kind": "global-frame", "status": st, "solver": "syntactic frame analysis", "ms": 0, "at": w.Pos, "declared": why})
				if ok {
					discharged++
					bySolver["syntactic frame analysis"]++
					continue
				}
				if kf := matchFinding(kfs, prop, name); kf != nil {
					fmt.Printf("KNOWN-FINDING: property=%s %s: %s\n", prop, kf.ID, kf.What)
					continue
				}
				p := writeReplay(name, map[string]interface{}{"obligation": name, "kind": "global-frame", "at": w.Pos, "verifier_output": fmt.Sprintf("package-level variable %s is written (%s) in %s, which is not declared by any //@ globalwrite clause", w.Var, w.How, w.Func)})
				report(p, true)
			}
			// the absence of writes to everything else is one more discharged obligation
			claimed++
			discharged++
			perObl = append(perObl, map[string]interface{}{"name": "global-frame/no-other-writes", "kind": "global-frame", "status": "proved", "solver": "syntactic frame analysis", "ms": 0, "writes_found": len(writes)})
		}
	}
	for _, m := range missing {
		p := writeReplay(m+".contract-target", map[string]interface{}{"obligation": m + "/contract-target", "verifier_output": "function under contract no longer exists in the tree"})
		report(p, true)
		claimed++
	}
	for _, e := range expected {
		if !have[e] {
			claimed++
			p := writeReplay(e+".missing", map[string]interface{}{"obligation": e, "verifier_output": "obligation listed in obligations/" + prop + ".txt was not generated from the current tree (contract or target changed)"})
			report(p, true)
		}
	}
	for _, f := range funcs {
		if f.Err != "" {
			claimed++
			p := writeReplay(f.Key+".engine-error", map[string]interface{}{"obligation": f.Key + "/engine", "verifier_output": f.Err})
			report(p, true)
		}
	}
	// witnesses of open known findings for this property: replayed against the real code
	for _, kf := range kfs {
		if kf.Property != prop || kf.Status != "open" || kf.Witness == "" {
			continue
		}
		failing, out := runWitness(*repo, kf)
		if failing {
			fmt.Printf("KNOWN-FINDING: property=%s %s: %s\n", prop, kf.ID, kf.What)
		} else {
			_ = out
		}
	}
	if claimed == 0 {
		fmt.Printf("govc check %s: no obligations generated — check is broken\n", prop)
		os.Exit(2)
	}

	// evidence
	trusted := []string{
		"govc VC generator (this repository's /verif/govc) and the SMT solvers z3 4.8.12 / z3 5.1.0 / cvc5 1.0.3",
		"float64 modelled as mathematical reals (no rounding, no Inf, NaN only as a sentinel constant)",
		"int/int64 arithmetic modelled as mathematical integers (no overflow); uint8/16/32 wrap modelled",
	}
	var assumptions []string
	for _, p := range eng.pkgs {
		for _, a := range eng.axioms[p.PkgPath] {
			// declared exceptions of the global frame analysis belong to the property they name
			if f := strings.Fields(a.Text); len(f) > 0 && strings.HasPrefix(f[0], "C") && len(f[0]) == 3 && f[0] != prop {
				continue
			}
			if strings.HasPrefix(a.Kind, "typeinv:") {
				how := "assumed whenever such an object is read; NOT proved where objects are built or updated"
				if a.Checked {
					how = "assumed whenever such an object is read; proved at every composite literal in verified functions (typeinvnew)"
				}
				assumptions = append(assumptions, "object invariant of "+strings.TrimPrefix(a.Kind, "typeinv:")+": "+a.Text+" ("+how+")")
				continue
			}
			assumptions = append(assumptions, "axiom (package globals): "+a.Text)
		}
	}
	for k, v := range eng.usedTrusted {
		assumptions = append(assumptions, "trusted contract "+k+": "+v)
	}
	for k, v := range libUsed {
		assumptions = append(assumptions, "library model "+k+": "+v)
	}
	for k := range eng.usedTypeInv {
		assumptions = append(assumptions, "object invariant assumed for every reachable object ("+k+")")
	}
	for _, a := range eng.assumeSites {
		assumptions = append(assumptions, "assume statement: "+a)
	}
	absSet := map[string]bool{}
	var fkeys []string
	for _, f := range funcs {
		fkeys = append(fkeys, f.Key)
		for _, a := range f.Abstracted {
			absSet[f.Key+": "+a] = true
		}
	}
	var abs []string
	for k := range absSet {
		abs = append(abs, k)
	}
	sort.Strings(abs)
	for _, a := range abs {
		assumptions = append(assumptions, "havoc-abstracted construct in "+a)
	}
	for k := range ufDecls {
		if strings.HasPrefix(k, "go_") {
			assumptions = append(assumptions, "uninterpreted math function "+k+" with the axioms instantiated at its use sites")
		}
	}
	sort.Strings(assumptions)
	cov := map[string]interface{}{
		"obligations":              claimed,
		"discharged":               discharged,
		"checker_cmd":              fmt.Sprintf("/verif/check %s --tier %s", prop, *tier),
		"trusted_base":             trusted,
		"functions_under_contract": fkeys,
		"per_obligation":           perObl,
		"discharged_by_solver":     bySolver,
		"solver_time_s":            solverS,
		"solver_timeout_s":         timeout,
		"unclaimed_undischarged":   unclaimedOpen,
		"vacuity_probes":           vacuity,
		"samples":                  samples,
		"explanation":              "contract-based deductive verification: VCs generated from the typed AST of /repo's working tree, one SMT query per obligation",
	}
	ev := &Evidence{PropertyID: prop, Tier: *tier, Seed: seed, Level: "proof", Coverage: cov, Assumptions: assumptions, WallS: time.Since(start).Seconds(), Violations: violations}
	writeEvidence(evPath, *noEvidence, ev)
	fmt.Printf("govc check %s [%s]: %d functions, %d/%d obligations discharged, %d violations, %.1fs\n", prop, *tier, len(funcs), discharged, claimed, violations, time.Since(start).Seconds())
	if violations > 0 {
		os.Exit(1)
	}
}

func truncate(s string, n int) string {
	if len(s) > n {
		return s[:n] + "…"
	}
	return s
}

func writeEvidence(path string, skip bool, ev *Evidence) {
	if skip {
		return
	}
	if ev.Assumptions == nil {
		ev.Assumptions = []string{}
	}
	b, _ := json.MarshalIndent(ev, "", " ")
	os.WriteFile(path, b, 0o644)
}

func readLines(path string) []string {
	b, err := os.ReadFile(path)
	if err != nil {
		return nil
	}
	var out []string
	for _, l := range strings.Split(string(b), "\n") {
		l = strings.TrimSpace(l)
		if l != "" && !strings.HasPrefix(l, "#") {
			out = append(out, l)
		}
	}
	return out
}

func loadKnownFindings(path string) []*KnownFinding {
	b, err := os.ReadFile(path)
	if err != nil {
		return nil
	}
	var f struct {
		Findings []*KnownFinding `json:"findings"`
	}
	if err := json.Unmarshal(b, &f); err != nil {
		fmt.Fprintln(os.Stderr, "known_findings.json:", err)
		return nil
	}
	return f.Findings
}

func matchFinding(kfs []*KnownFinding, prop, obl string) *KnownFinding {
	for _, k := range kfs {
		if k.Status == "open" && k.Property == prop && k.Obligation != "" && k.Obligation == obl {
			return k
		}
	}
	return nil
}

// runWitness runs a known finding's witness test against the real code; failing=true while the defect is present
func runWitness(repo string, kf *KnownFinding) (bool, string) {
	pkgDir := filepath.Join(repo, kf.Package)
	pkgName := packageNameOf(pkgDir)
	src := "package " + pkgName + "\n\nimport \"testing\"\n\nfunc TestVerifWitness(t *testing.T) {\n" + kf.Witness + "\n}\n"
	out, failed := runOverlayTest(repo, pkgDir, "verif_witness_test.go", src, "TestVerifWitness")
	return failed, out
}

func packageNameOf(dir string) string {
	ents, _ := os.ReadDir(dir)
	for _, e := range ents {
		if strings.HasSuffix(e.Name(), ".go") && !strings.HasSuffix(e.Name(), "_test.go") {
			b, _ := os.ReadFile(filepath.Join(dir, e.Name()))
			for _, l := range strings.Split(string(b), "\n") {
				if strings.HasPrefix(l, "package ") {
					return strings.TrimSpace(strings.TrimPrefix(l, "package "))
				}
			}
		}
	}
	return "main"
}

// runOverlayTest injects an in-package test via -overlay and runs it; returns output and whether it failed
func runOverlayTest(repo, pkgDir, fname, src, run string) (string, bool) {
	tmp, _ := os.MkdirTemp("/var/tmp", "govc.replay.")
	defer os.RemoveAll(tmp)
	tf := filepath.Join(tmp, fname)
	os.WriteFile(tf, []byte(src), 0o644)
	ov := map[string]map[string]string{"Replace": {filepath.Join(pkgDir, fname): tf}}
	ob, _ := json.Marshal(ov)
	ovf := filepath.Join(tmp, "overlay.json")
	os.WriteFile(ovf, ob, 0o644)
	cmd := exec.Command(goBin, "test", "-tags", "verif", "-overlay", ovf, "-vet=off", "-count=1", "-timeout", "60s", "-run", "^"+run+"$", ".")
	cmd.Dir = pkgDir
	cmd.Env = append(os.Environ(), "GOFLAGS=-mod=mod", "GOPROXY=off", "GOSUMDB=off", "GOTOOLCHAIN=local")
	out, err := cmd.CombinedOutput()
	return string(out), err != nil
}
