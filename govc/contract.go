package main

// Contract files: /repo/<pkg>/verif_contracts*.go (build tag verif). Contracts are
// structured comments:
//
//	//@ func Matrix.Mul
//	//@   props C07 C15
//	//@   requires <go expr>
//	//@   ensures  <go expr>          (result, result0.., old(e), forall(i, lo, hi, body), implies(a,b))
//	//@   loop 1 invariant <go expr>
//	//@   loop 1 decreases <go expr>
//	//@   assigns <loc>, <loc>         (used by callers: what may change)
//	//@   trusted <reason>             (contract assumed, body not verified)
//	//@   unclaimed <obligation-suffix> <reason>
//	//@   opaque                       (never inline; callers use the contract only)

import (
	"fmt"
	"go/ast"
	"go/parser"
	"go/token"
	"go/types"
	"strconv"
	"strings"

	"golang.org/x/tools/go/packages"
)

type Clause struct {
	Kind  string // requires, ensures, invariant, decreases
	Text  string
	Ord   int
	Expr  ast.Expr // after rewriting; for requires/ensures a FuncLit wrapper is NOT used; see resultVars
	Info  *types.Info
	Line  string // file:line of the //@ comment
	Props []string
	Checked bool // typeinvnew
}

type LoopSpec struct {
	Invariants []*Clause
	Decreases  *Clause
}

type Contract struct {
	Key       string // "Matrix.Mul" (package-local)
	Pkg       *packages.Package
	Fn        *FuncInfo
	Props     []string
	Requires  []*Clause
	Ensures   []*Clause
	Loops     map[int]*LoopSpec
	Assigns   []string
	AssignsE  []ast.Expr
	AssignsI  *types.Info
	HasAssign bool
	Trusted   string
	Opaque    bool
	Inline    bool
	Missing   bool
	Split     int
	SplitDeep bool
	Generalize []string // `generalize ghostJ ..`: callers may assume the ensures clauses mentioning these ghost variables for every value
	SplitLoops map[int]bool // `split loop N ...`: deep path splitting inside the bodies of these loops only
	Pure      bool
	Logged    bool // modular calls append "@Key" to the ghost write log of the caller
	ResultPure string // assumption: function values this function returns are side-effect free, deterministic functions of their arguments
	Unfold    map[string]bool
	CaseVar   string
	CaseVals  []string
	Unclaimed map[string]string
	Line      string
	// result variables introduced for unnamed results (objects created by the FuncLit wrapper)
	clausesChecked bool
}

type FuncInfo struct {
	Decl *ast.FuncDecl
	Pkg  *packages.Package
	Obj  *types.Func
	Key  string // package-local key "Recv.Name" or "Name"
	File string
	pure bool
	hasGoto bool
}

func funcKey(fd *ast.FuncDecl) string {
	if fd.Recv != nil && len(fd.Recv.List) > 0 {
		t := fd.Recv.List[0].Type
		for {
			switch x := t.(type) {
			case *ast.StarExpr:
				t = x.X
				continue
			case *ast.ParenExpr:
				t = x.X
				continue
			case *ast.IndexExpr:
				t = x.X
				continue
			}
			break
		}
		if id, ok := t.(*ast.Ident); ok {
			return id.Name + "." + fd.Name.Name
		}
	}
	return fd.Name.Name
}

// parse all //@ comment blocks in a file
func parseContractFile(fset *token.FileSet, f *ast.File, pkg *packages.Package) ([]*Contract, []*Clause, error) {
	var out []*Contract
	var axioms []*Clause
	var cur *Contract
	for _, cg := range f.Comments {
		for _, c := range cg.List {
			if !strings.HasPrefix(c.Text, "//@") {
				continue
			}
			line := strings.TrimSpace(c.Text[3:])
			if line == "" {
				continue
			}
			pos := fset.Position(c.Pos())
			where := fmt.Sprintf("%s:%d", pos.Filename, pos.Line)
			word, rest := splitWord(line)
			if word == "func" {
				cur = &Contract{Key: strings.TrimSpace(rest), Pkg: pkg, Loops: map[int]*LoopSpec{}, Unclaimed: map[string]string{}, Line: where}
				cur.Key = strings.NewReplacer("(", "", ")", "", "*", "").Replace(cur.Key)
				out = append(out, cur)
				continue
			}
			if word == "globalwrite" {
				axioms = append(axioms, &Clause{Kind: "globalwrite", Text: rest, Ord: len(axioms) + 1, Line: where})
				continue
			}
			if word == "typeinv" || word == "typeinvnew" {
				// typeinv: assumed whenever a *T is read. typeinvnew: additionally PROVED for every object built by a
				// composite literal &T{...} in a verified function (for invariants over fields that are only ever set
				// in literals)
				tn, r := splitWord(rest)
				axioms = append(axioms, &Clause{Kind: "typeinv:" + tn, Text: r, Ord: len(axioms) + 1, Line: where, Checked: word == "typeinvnew"})
				continue
			}
			if word == "axiom" {
				axioms = append(axioms, &Clause{Kind: "axiom", Text: rest, Ord: len(axioms) + 1, Line: where})
				continue
			}
			if cur == nil {
				return nil, nil, fmt.Errorf("%s: clause outside of a func block", where)
			}
			switch word {
			case "props":
				cur.Props = strings.Fields(rest)
			case "requires":
				cur.Requires = append(cur.Requires, &Clause{Kind: "requires", Text: rest, Ord: len(cur.Requires) + 1, Line: where})
			case "ensures":
				cur.Ensures = append(cur.Ensures, &Clause{Kind: "ensures", Text: rest, Ord: len(cur.Ensures) + 1, Line: where})
			case "loop":
				nstr, r2 := splitWord(rest)
				n, err := strconv.Atoi(nstr)
				if err != nil {
					return nil, nil, fmt.Errorf("%s: bad loop ordinal", where)
				}
				kind, r3 := splitWord(r2)
				ls := cur.Loops[n]
				if ls == nil {
					ls = &LoopSpec{}
					cur.Loops[n] = ls
				}
				switch kind {
				case "invariant":
					ls.Invariants = append(ls.Invariants, &Clause{Kind: "invariant", Text: r3, Ord: len(ls.Invariants) + 1, Line: where})
				case "decreases":
					ls.Decreases = &Clause{Kind: "decreases", Text: r3, Ord: 1, Line: where}
				default:
					return nil, nil, fmt.Errorf("%s: unknown loop clause %q", where, kind)
				}
			case "assigns":
				cur.HasAssign = true
				for _, a := range strings.Split(rest, ",") {
					a = strings.TrimSpace(a)
					if a != "" && a != "nothing" {
						cur.Assigns = append(cur.Assigns, a)
					}
				}
			case "trusted":
				cur.Trusted = rest
				if cur.Trusted == "" {
					cur.Trusted = "assumed"
				}
			case "opaque":
				cur.Opaque = true
			case "inline":
				cur.Inline = true
			case "pure":
				cur.Pure = true
			case "logged":
				cur.Logged = true
			case "resultpure":
				cur.ResultPure = strings.TrimSpace(rest)
				if cur.ResultPure == "" {
					cur.ResultPure = "function values returned are side-effect free and deterministic"
				}
			case "unfold":
				if cur.Unfold == nil {
					cur.Unfold = map[string]bool{}
				}
				for _, f := range strings.Fields(rest) {
					cur.Unfold[strings.NewReplacer("(", "", ")", "", "*", "").Replace(f)] = true
				}
			case "split":
				cur.Split = 16
				if rest == "deep" {
					cur.Split = 512
					cur.SplitDeep = true
				} else if strings.HasPrefix(rest, "loop ") {
					cur.Split = 512
					cur.SplitDeep = true
					cur.SplitLoops = map[int]bool{}
					for _, f := range strings.Fields(rest[5:]) {
						n, err := strconv.Atoi(f)
						if err != nil {
							return nil, nil, fmt.Errorf("%s: split loop: bad ordinal %q", where, f)
						}
						cur.SplitLoops[n] = true
					}
				} else if n, err := strconv.Atoi(rest); err == nil {
					cur.Split = n
				}
			case "generalize":
				cur.Generalize = append(cur.Generalize, strings.Fields(rest)...)
			case "cases":
				w, r := splitWord(rest)
				cur.CaseVar = w
				cur.CaseVals = strings.Fields(r)
			case "unclaimed":
				w, r := splitWord(rest)
				cur.Unclaimed[w] = r
			default:
				return nil, nil, fmt.Errorf("%s: unknown clause %q", where, word)
			}
		}
	}
	return out, axioms, nil
}

func parserParse(fset *token.FileSet, filename string, src []byte) (*ast.File, error) {
	return parser.ParseFile(fset, filename, src, parser.ParseComments|parser.AllErrors)
}

func parseClauseExpr(fset *token.FileSet, c *Clause) (ast.Expr, error) {
	e, err := parser.ParseExprFrom(fset, c.Line, c.Text, 0)
	if err != nil {
		return nil, fmt.Errorf("%s: parse %q: %v", c.Line, c.Text, err)
	}
	return rewriteSpecExpr(e), nil
}

func splitWord(s string) (string, string) {
	s = strings.TrimSpace(s)
	i := strings.IndexAny(s, " \t")
	if i < 0 {
		return s, ""
	}
	return s[:i], strings.TrimSpace(s[i+1:])
}

// rewriteSpecExpr turns forall(i, lo, hi, body) into forallInt(lo, hi, func(i int) bool { return body })
// and exists(...) likewise, so that the expression type-checks as ordinary Go.
func rewriteSpecExpr(e ast.Expr) ast.Expr {
	var rw func(n ast.Expr) ast.Expr
	rw = func(n ast.Expr) ast.Expr {
		switch x := n.(type) {
		case *ast.CallExpr:
			for i := range x.Args {
				x.Args[i] = rw(x.Args[i])
			}
			x.Fun = rw(x.Fun)
			if id, ok := x.Fun.(*ast.Ident); ok && (id.Name == "forall" || id.Name == "exists") && len(x.Args) == 4 {
				if v, ok := x.Args[0].(*ast.Ident); ok {
					lit := &ast.FuncLit{
						Type: &ast.FuncType{
							Params:  &ast.FieldList{List: []*ast.Field{{Names: []*ast.Ident{ast.NewIdent(v.Name)}, Type: ast.NewIdent("int")}}},
							Results: &ast.FieldList{List: []*ast.Field{{Type: ast.NewIdent("bool")}}},
						},
						Body: &ast.BlockStmt{List: []ast.Stmt{&ast.ReturnStmt{Results: []ast.Expr{x.Args[3]}}}},
					}
					return &ast.CallExpr{Fun: ast.NewIdent(id.Name + "Int"), Args: []ast.Expr{x.Args[1], x.Args[2], lit}}
				}
			}
			if id, ok := x.Fun.(*ast.Ident); ok && (id.Name == "forallR" || id.Name == "existsR") && len(x.Args) == 2 {
				if v, ok := x.Args[0].(*ast.Ident); ok {
					lit := &ast.FuncLit{
						Type: &ast.FuncType{
							Params:  &ast.FieldList{List: []*ast.Field{{Names: []*ast.Ident{ast.NewIdent(v.Name)}, Type: ast.NewIdent("float64")}}},
							Results: &ast.FieldList{List: []*ast.Field{{Type: ast.NewIdent("bool")}}},
						},
						Body: &ast.BlockStmt{List: []ast.Stmt{&ast.ReturnStmt{Results: []ast.Expr{x.Args[1]}}}},
					}
					return &ast.CallExpr{Fun: ast.NewIdent(id.Name + "eal"), Args: []ast.Expr{lit}}
				}
			}
			return x
		case *ast.BinaryExpr:
			x.X = rw(x.X)
			x.Y = rw(x.Y)
			return x
		case *ast.UnaryExpr:
			x.X = rw(x.X)
			return x
		case *ast.ParenExpr:
			x.X = rw(x.X)
			return x
		case *ast.SelectorExpr:
			x.X = rw(x.X)
			return x
		case *ast.IndexExpr:
			x.X = rw(x.X)
			x.Index = rw(x.Index)
			return x
		case *ast.SliceExpr:
			x.X = rw(x.X)
			if x.Low != nil {
				x.Low = rw(x.Low)
			}
			if x.High != nil {
				x.High = rw(x.High)
			}
			return x
		case *ast.StarExpr:
			x.X = rw(x.X)
			return x
		case *ast.CompositeLit:
			for i := range x.Elts {
				x.Elts[i] = rw(x.Elts[i])
			}
			return x
		case *ast.KeyValueExpr:
			x.Value = rw(x.Value)
			return x
		}
		return n
	}
	return rw(e)
}

// checkClause parses and type-checks a clause expression in the scope of fn at pos.
// For requires/ensures the expression is wrapped in a func literal whose parameters
// are the result names; the returned FuncLit params are bound by the evaluator.
func (eng *Engine) checkClause(c *Clause, fi *FuncInfo, pos token.Pos, withResults bool) error {
	e, err := parseClauseExpr(eng.fset, c)
	if err != nil {
		return err
	}
	info := newInfo()
	var expr ast.Expr = e
	if withResults {
		res := fi.Decl.Type.Results
		var fields []*ast.Field
		if res != nil {
			n := 0
			for _, f := range res.List {
				if len(f.Names) == 0 {
					names := []*ast.Ident{ast.NewIdent(fmt.Sprintf("result%d", n))}
					if n == 0 {
						names = append(names, nil)
						names = names[:1]
					}
					fields = append(fields, &ast.Field{Names: names, Type: f.Type})
					n++
				} else {
					for range f.Names {
						// named results: visible via scope already, but Go's scoping at body start
						// includes them; still provide resultN aliases
						fields = append(fields, &ast.Field{Names: []*ast.Ident{ast.NewIdent(fmt.Sprintf("result%d", n))}, Type: f.Type})
						n++
					}
				}
			}
			if n >= 1 {
				// alias "result" for the first result
				fields = append(fields, &ast.Field{Names: []*ast.Ident{ast.NewIdent("result")}, Type: fields[0].Type})
			}
		}
		expr = &ast.FuncLit{
			Type: &ast.FuncType{
				Params:  &ast.FieldList{List: fields},
				Results: &ast.FieldList{List: []*ast.Field{{Type: ast.NewIdent("bool")}}},
			},
			Body: &ast.BlockStmt{List: []ast.Stmt{&ast.ReturnStmt{Results: []ast.Expr{e}}}},
		}
	}
	if err := types.CheckExpr(eng.fset, fi.Pkg.Types, pos, expr, info); err != nil {
		return fmt.Errorf("%s: type-check %q: %v", c.Line, c.Text, err)
	}
	c.Expr = expr
	c.Info = info
	return nil
}
