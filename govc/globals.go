package main

// Whole-module frame analysis for package-level variables (C20): every syntactic write to, or address-of,
// a package-level variable of the loaded packages is collected per function. The contract files declare
// which writes are expected (//@ globalwrite <var> in <func> : <why>); every other write is a failed
// obligation "global-frame". Sound for direct writes; a pointer to a global that escapes is flagged as a
// write at the place where the address is taken.

import (
	"fmt"
	"go/ast"
	"go/token"
	"go/types"
	"sort"
	"strings"
)

type globalWrite struct {
	Var, Func, Pos, How string
	TypePkg            string
	Locked             bool // lies between <var>.Lock() and <var>.Unlock() calls of the same function (source order)
	pos                token.Pos
	fn                 *ast.FuncDecl
}

func (eng *Engine) collectGlobalWrites() []globalWrite {
	var out []globalWrite
	for _, p := range eng.pkgs {
		info := p.TypesInfo
		isGlobal := func(e ast.Expr) *types.Var {
			for {
				switch x := e.(type) {
				case *ast.ParenExpr:
					e = x.X
					continue
				case *ast.SelectorExpr:
					// pkg.Var or global.field
					if id, ok := x.X.(*ast.Ident); ok {
						if _, isPkg := info.ObjectOf(id).(*types.PkgName); isPkg {
							if v, ok := info.ObjectOf(x.Sel).(*types.Var); ok && v.Pkg() != nil && v.Parent() == v.Pkg().Scope() {
								return v
							}
							return nil
						}
					}
					// field of a struct-valued global (not through a pointer)
					if t := info.TypeOf(x.X); t != nil && isPointer(t) {
						return nil
					}
					e = x.X
					continue
				case *ast.IndexExpr:
					if t := info.TypeOf(x.X); t != nil {
						if _, isArr := t.Underlying().(*types.Array); isArr {
							e = x.X
							continue
						}
						if _, isMap := t.Underlying().(*types.Map); isMap {
							e = x.X // writing an entry of a global map mutates shared state
							continue
						}
					}
					return nil
				case *ast.Ident:
					if v, ok := info.ObjectOf(x).(*types.Var); ok && v.Pkg() != nil && v.Parent() == v.Pkg().Scope() {
						return v
					}
					return nil
				}
				return nil
			}
		}
		for _, f := range p.Syntax {
			fname := eng.fset.Position(f.Pos()).Filename
			if strings.HasSuffix(fname, "_test.go") || strings.Contains(fname, "/verif_") {
				continue
			}
			var curFunc string
			var curDecl *ast.FuncDecl
			var visit func(n ast.Node) bool
			record := func(v *types.Var, pos token.Pos, how string) {
				if !strings.Contains(v.Pkg().Path(), "tdewolff/canvas") {
					return
				}
				ps := eng.fset.Position(pos)
				out = append(out, globalWrite{Var: v.Pkg().Name() + "." + v.Name(), Func: p.Types.Name() + "." + curFunc, Pos: fmt.Sprintf("%s:%d", relPath(ps.Filename), ps.Line), How: how, pos: pos, fn: curDecl, TypePkg: typePkgOf(v.Type())})
			}
			visit = func(n ast.Node) bool {
				switch a := n.(type) {
				case *ast.FuncDecl:
					curFunc = funcKey(a)
				case *ast.GenDecl:
					if a.Tok == token.VAR && curFunc == "" {
						// initialisers of package-level vars run before main: closures inside are attributed to "<init>"
					}
				case *ast.AssignStmt:
					if a.Tok == token.DEFINE {
						break
					}
					for _, l := range a.Lhs {
						if v := isGlobal(l); v != nil {
							record(v, l.Pos(), "assignment")
						}
					}
				case *ast.IncDecStmt:
					if v := isGlobal(a.X); v != nil {
						record(v, a.Pos(), "increment")
					}
				case *ast.UnaryExpr:
					if a.Op == token.AND {
						if v := isGlobal(a.X); v != nil {
							record(v, a.Pos(), "address taken")
						}
					}
				case *ast.CallExpr:
					// method with pointer receiver on a global value: global.M()
					if sel, ok := a.Fun.(*ast.SelectorExpr); ok {
						if s := info.Selections[sel]; s != nil && s.Kind() == types.MethodVal {
							if sig, ok := s.Obj().Type().(*types.Signature); ok && sig.Recv() != nil && isPointer(sig.Recv().Type()) {
								if t := info.TypeOf(sel.X); t != nil && !isPointer(t) {
									if v := isGlobal(sel.X); v != nil {
										record(v, a.Pos(), "pointer-receiver method "+sel.Sel.Name)
									}
								}
							}
						}
					}
				}
				return true
			}
			for _, d := range f.Decls {
				curFunc = "<init>"
				curDecl = nil
				if fd, ok := d.(*ast.FuncDecl); ok {
					curFunc = funcKey(fd)
					curDecl = fd
				}
				ast.Inspect(d, visit)
			}
		}
	}
	// lock discipline: drop the Lock/Unlock calls themselves and mark writes that lie between them
	var kept []globalWrite
	for _, w := range out {
		if w.How == "pointer-receiver method Lock" || w.How == "pointer-receiver method Unlock" {
			continue
		}
		if w.fn != nil && w.fn.Body != nil {
			short := w.Var[strings.Index(w.Var, ".")+1:]
			var locks, unlocks []token.Pos
			ast.Inspect(w.fn.Body, func(n ast.Node) bool {
				if c, ok := n.(*ast.CallExpr); ok {
					if sel, ok := c.Fun.(*ast.SelectorExpr); ok {
						if id, ok := sel.X.(*ast.Ident); ok && id.Name == short {
							if sel.Sel.Name == "Lock" {
								locks = append(locks, c.Pos())
							} else if sel.Sel.Name == "Unlock" {
								unlocks = append(unlocks, c.Pos())
							}
						}
					}
				}
				return true
			})
			var lastLock token.Pos
			for _, l := range locks {
				if l < w.pos && l > lastLock {
					lastLock = l
				}
			}
			if lastLock != 0 {
				unlockedBetween := false
				unlockAfter := false
				for _, u := range unlocks {
					if u > lastLock && u < w.pos {
						unlockedBetween = true
					}
					if u > w.pos {
						unlockAfter = true
					}
				}
				w.Locked = !unlockedBetween && unlockAfter
			}
		}
		kept = append(kept, w)
	}
	out = kept
	sort.Slice(out, func(i, j int) bool {
		if out[i].Var != out[j].Var {
			return out[i].Var < out[j].Var
		}
		return out[i].Pos < out[j].Pos
	})
	return out
}

func typePkgOf(t types.Type) string {
	if n, ok := t.(*types.Named); ok && n.Obj().Pkg() != nil {
		return n.Obj().Pkg().Path()
	}
	return ""
}
