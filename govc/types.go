package main

// Mapping from Go types to SMT sorts.

import (
	"fmt"
	"go/types"
	"strings"
)

// Slice value: (blk, off, len, cap). Element storage lives in per-element-sort
// memories Mem_<E> : Array Int (Array Int E), indexed by block then absolute offset.
var SliceSort = &Sort{Kind: KDT, Name: "Slice", Fields: []DTField{
	{"sl_blk", SInt}, {"sl_off", SInt}, {"sl_len", SInt}, {"sl_cap", SInt}}}

// String value: immutable (arr, len); bytes as Int
var StrSort = &Sort{Kind: KDT, Name: "Str", Fields: []DTField{
	{"str_arr", ArrayOf(SInt, SInt)}, {"str_off", SInt}, {"str_len", SInt}}}

// Interface value: (dynamic type tag, payload reference/opaque Int)
var IfaceSort = &Sort{Kind: KDT, Name: "Iface", Fields: []DTField{
	{"if_tag", SInt}, {"if_val", SInt}}}

type structInfo struct {
	sort   *Sort
	fields []*types.Var
	name   string // sanitized type name used for heap arrays
}

type TypeMap struct {
	structs map[string]*structInfo
	tags    map[string]int // dynamic type tags
}

func newTypeMap() *TypeMap {
	return &TypeMap{structs: map[string]*structInfo{}, tags: map[string]int{}}
}

func sanitize(s string) string {
	var b strings.Builder
	for _, r := range s {
		switch {
		case r >= 'a' && r <= 'z', r >= 'A' && r <= 'Z', r >= '0' && r <= '9', r == '_':
			b.WriteRune(r)
		case r == '.' || r == '/':
			b.WriteRune('_')
		case r == '*':
			b.WriteString("P")
		case r == '[':
			b.WriteString("L")
		case r == ']':
			b.WriteString("J")
		default:
			b.WriteString("_")
		}
	}
	return b.String()
}

func shortTypeName(t types.Type) string {
	s := types.TypeString(t, func(p *types.Package) string { return p.Name() })
	return sanitize(s)
}

func (tm *TypeMap) tagOf(t types.Type) int {
	k := types.TypeString(t, nil)
	if v, ok := tm.tags[k]; ok {
		return v
	}
	v := len(tm.tags) + 1
	tm.tags[k] = v
	return v
}

func (tm *TypeMap) structOf(t types.Type) *structInfo {
	st, ok := t.Underlying().(*types.Struct)
	if !ok {
		panic("structOf on non-struct " + t.String())
	}
	key := types.TypeString(t, nil)
	if si, ok := tm.structs[key]; ok {
		return si
	}
	name := shortTypeName(t)
	if _, isNamed := t.(*types.Named); !isNamed {
		name = fmt.Sprintf("anon%d", len(tm.structs))
	}
	si := &structInfo{name: name}
	si.sort = &Sort{Kind: KDT, Name: "S_" + name}
	tm.structs[key] = si
	for i := 0; i < st.NumFields(); i++ {
		f := st.Field(i)
		si.fields = append(si.fields, f)
		si.sort.Fields = append(si.sort.Fields, DTField{Name: fmt.Sprintf("f_%s_%s", name, f.Name()), S: tm.sortOf(f.Type())})
	}
	if st.NumFields() == 0 {
		// SMT datatypes need at least... a nullary constructor is fine, but keep one dummy field for uniformity
		si.sort.Fields = append(si.sort.Fields, DTField{Name: fmt.Sprintf("f_%s__dummy", name), S: SInt})
	}
	return si
}

func (tm *TypeMap) sortOf(t types.Type) *Sort {
	switch u := t.Underlying().(type) {
	case *types.Basic:
		info := u.Info()
		switch {
		case info&types.IsBoolean != 0:
			return SBool
		case info&types.IsInteger != 0:
			return SInt
		case info&types.IsFloat != 0:
			return SReal
		case info&types.IsString != 0:
			return StrSort
		case u.Kind() == types.UnsafePointer:
			return SInt
		case u.Kind() == types.UntypedNil:
			return SInt
		}
		return SInt
	case *types.Struct:
		return tm.structOf(t).sort
	case *types.Pointer:
		return SInt
	case *types.Slice:
		return SliceSort
	case *types.Array:
		if u.Len() <= maxDTArray {
			return tm.arrDT(tm.sortOf(u.Elem()), int(u.Len()))
		}
		return ArrayOf(SInt, tm.sortOf(u.Elem()))
	case *types.Map:
		return SInt // reference
	case *types.Interface:
		return IfaceSort
	case *types.Signature:
		return SInt
	case *types.Chan:
		return SInt
	case *types.Tuple:
		return SInt
	case *types.TypeParam:
		return SInt
	}
	return SInt
}

// integer range of a basic integer type, ok=false for int/uint/int64/uint64 (treated as mathematical)
func intRange(t types.Type) (lo, hi int64, ok bool) {
	b, isb := t.Underlying().(*types.Basic)
	if !isb {
		return 0, 0, false
	}
	switch b.Kind() {
	case types.Int8:
		return -128, 127, true
	case types.Int16:
		return -32768, 32767, true
	case types.Int32:
		return -2147483648, 2147483647, true
	case types.Uint8:
		return 0, 255, true
	case types.Uint16:
		return 0, 65535, true
	case types.Uint32:
		return 0, 4294967295, true
	}
	return 0, 0, false
}

func isUnsigned(t types.Type) bool {
	b, isb := t.Underlying().(*types.Basic)
	return isb && b.Info()&types.IsUnsigned != 0
}

func isFloat(t types.Type) bool {
	b, isb := t.Underlying().(*types.Basic)
	return isb && b.Info()&types.IsFloat != 0
}

func isInteger(t types.Type) bool {
	b, isb := t.Underlying().(*types.Basic)
	return isb && b.Info()&types.IsInteger != 0
}

func isString(t types.Type) bool {
	b, isb := t.Underlying().(*types.Basic)
	return isb && b.Info()&types.IsString != 0
}

func isPointer(t types.Type) bool {
	_, ok := t.Underlying().(*types.Pointer)
	return ok
}

func isSlice(t types.Type) bool {
	_, ok := t.Underlying().(*types.Slice)
	return ok
}

func isStruct(t types.Type) bool {
	_, ok := t.Underlying().(*types.Struct)
	return ok
}

func isInterface(t types.Type) bool {
	_, ok := t.Underlying().(*types.Interface)
	return ok
}

func isMap(t types.Type) bool {
	_, ok := t.Underlying().(*types.Map)
	return ok
}

func elemOfPointer(t types.Type) types.Type {
	return t.Underlying().(*types.Pointer).Elem()
}

// Go arrays of at most maxDTArray elements are tuples (exact equality); larger ones are SMT arrays.
const maxDTArray = 16

var arrDTs = map[string]*Sort{}

func (tm *TypeMap) arrDT(elem *Sort, n int) *Sort {
	name := fmt.Sprintf("Arr%d_%s", n, elem.Mangle())
	if s, ok := arrDTs[name]; ok {
		return s
	}
	s := &Sort{Kind: KDT, Name: name}
	for i := 0; i < n; i++ {
		s.Fields = append(s.Fields, DTField{Name: fmt.Sprintf("e%d_%s", i, name), S: elem})
	}
	if n == 0 {
		s.Fields = append(s.Fields, DTField{Name: "e_dummy_" + name, S: SInt})
	}
	arrDTs[name] = s
	return s
}

func isArrDT(s *Sort) bool {
	return s.Kind == KDT && strings.HasPrefix(s.Name, "Arr")
}

// arrGet reads element idx of a Go array value (tuple or SMT array)
func arrGet(arr, idx *Term, n int64) *Term {
	if arr.S.Kind == KArray {
		return Select(arr, idx)
	}
	if idx.rat != nil {
		i := idx.rat.Num().Int64()
		if i >= 0 && i < n {
			return Field(arr, int(i))
		}
		return Field(arr, 0)
	}
	v := Field(arr, int(n-1))
	for i := n - 2; i >= 0; i-- {
		v = Ite(Eq(idx, IntLit(i)), Field(arr, int(i)), v)
	}
	return v
}

func arrSet(arr, idx, val *Term, n int64) *Term {
	if arr.S.Kind == KArray {
		return Store(arr, idx, val)
	}
	if idx.rat != nil {
		i := idx.rat.Num().Int64()
		if i >= 0 && i < n {
			return WithField(arr, int(i), val)
		}
		return arr
	}
	args := make([]*Term, n)
	for i := int64(0); i < n; i++ {
		args[i] = Ite(Eq(idx, IntLit(i)), val, Field(arr, int(i)))
	}
	return Mk(arr.S, args...)
}
