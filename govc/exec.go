package main

// Symbolic executor over the typed AST: states, statements, loops cut at invariants.

import (
	"fmt"
	"os"
	"time"
	"go/ast"
	"go/token"
	"go/types"
	"sort"
	"strings"
)

type callRec struct {
	name string // types.Func FullName
	args []*Term
	lits []string // constant string arguments ("" when not constant), same indexing as args
	res  []*Term   // result terms (logged module functions only)
	hide *callInfo // for a gap ("?"): what the callee that caused it may call (nil: anything)
	mg   *mergeGap // for a gap caused by a merge of paths whose logs differ: what the differing stretches contain
}

// mergeGap: the calls that may hide in a gap left by a merge (names of the recorded calls in the differing suffixes,
// and the gaps those suffixes contained themselves)
type mergeGap struct {
	names map[string]bool
	infos []*callInfo // gaps of modular callees inside the differing stretches
	all   bool        // a gap that may hide anything was inside
}

func (g *mergeGap) add(recs []callRec) {
	for _, r := range recs {
		if r.name != "?" {
			g.names[r.name] = true
			continue
		}
		switch {
		case r.mg != nil:
			for n := range r.mg.names {
				g.names[n] = true
			}
			g.infos = append(g.infos, r.mg.infos...)
			if r.mg.all {
				g.all = true
			}
		case r.hide != nil:
			g.infos = append(g.infos, r.hide)
		default:
			g.all = true
		}
	}
}

// gapMayHide: may a call matching the name pattern (suffix match, as in findCall) be hidden in the gap record c?
func gapMayHide(c *callRec, name string) bool {
	mayInfo := func(ci *callInfo) bool {
		// a modular callee may call any function outside the module; of the logged module functions only its callees
		if !strings.HasPrefix(name, "@") || ci.unknown {
			return true
		}
		for f := range ci.callees {
			if strings.HasSuffix("@"+f.Key, name) {
				return true
			}
		}
		return false
	}
	if c.mg != nil {
		if c.mg.all {
			return true
		}
		for n := range c.mg.names {
			if strings.HasSuffix(n, name) {
				return true
			}
		}
		for _, ci := range c.mg.infos {
			if mayInfo(ci) {
				return true
			}
		}
		return false
	}
	if c.hide != nil {
		return mayInfo(c.hide)
	}
	return true
}

type State struct {
	log     []string // ghost log of literal byte strings written through Write([]byte("literal")); "?" = not a literal
	logBad  bool     // logs of merged branches disagreed: the log is unknown from here on
	calls     []callRec // ghost log of calls into code outside the verified module (library / external), with argument terms
	callsOpen bool      // an unknown number of unknown calls precedes calls[0] (loop head, merge, modular call)
	epoch   *Term // changes whenever the heap may have changed (results of heap-reading pure calls depend on it)
	hgen    string // non-empty after a havoc of the whole heap: names the unknown initial value of heaps first touched later
	xepoch  *Term // like epoch, but unchanged by stores into memory the font packages cannot read (see ephemeralHeap)
	env     map[types.Object]*Term
	heap    map[string]*Term
	assumes []*Term
	dead    bool
}

var epochCounter int

func (s *State) clone() *State {
	if s.epoch == nil {
		// fix the epoch before branching so that both branches share it
		epochCounter++
		s.epoch = Var(fmt.Sprintf("epoch!c%d", epochCounter), SInt)
	}
	if s.xepoch == nil {
		epochCounter++
		s.xepoch = Var(fmt.Sprintf("xepoch!c%d", epochCounter), SInt)
	}
	n := &State{env: make(map[types.Object]*Term, len(s.env)), heap: make(map[string]*Term, len(s.heap)), dead: s.dead, epoch: s.epoch, xepoch: s.xepoch, hgen: s.hgen}
	for k, v := range s.env {
		n.env[k] = v
	}
	for k, v := range s.heap {
		n.heap[k] = v
	}
	n.assumes = append([]*Term(nil), s.assumes...)
	n.log = append([]string(nil), s.log...)
	n.logBad = s.logBad
	n.calls = append([]callRec(nil), s.calls...)
	n.callsOpen = s.callsOpen
	return n
}

func (s *State) assume(t *Term) {
	if t == True {
		return
	}
	// skip exact duplicates among the most recent assumptions
	for i := len(s.assumes) - 1; i >= 0 && i >= len(s.assumes)-12; i-- {
		if s.assumes[i] == t {
			return
		}
	}
	if t == False {
		s.dead = true
	}
	s.assumes = append(s.assumes, t)
}

type Obligation struct {
	Name    string
	Kind    string // ensures, requires, invariant, decreases, index, nil, slice, panic, div, assert, typeassert
	Func    string // function key under verification (pkg-qualified)
	Hyps    []*Term
	Goal    *Term
	Pos     string
	Text    string
	Props   []string
	Trivial bool
	Tag     string            // clause identity of the goal (e.g. loop1.inv#3)
	HypTags map[*Term]string  // provenance of hypotheses that came from contract clauses
	Clause  *Clause
	Result  *SolveResult
	// for replay
	fi *FuncInfo
}

type RetState struct {
	s    *State
	vals []*Term
}

type loopCtx struct {
	body   []ast.Stmt
	label  string
	breaks []*State
	conts  []*State
}

type Frame struct {
	fi       *FuncInfo
	info     *types.Info
	rets     []*RetState
	entry    *State
	contract *Contract
	loopOrd  int
	loopIdx  map[ast.Node]int
	loops    []*loopCtx
	inlined  bool
	results  []types.Object // named result objects
	label    string         // pending label for the next loop statement
	counts   map[string]int // obligation ordinals per kind
	closures map[types.Object]*ast.FuncLit
	closureSig *types.Signature
	iterStarts map[int]*State
	paramObjs  []types.Object
	rangeIdx   map[int]types.Object
	rangeColl  map[int]*Term
}

type sliceParentInfo struct {
	parent *Term
	lo     *Term
}

type Exec struct {
	eng        *Engine
	frames     []*Frame
	obls       []*Obligation
	fresh      int
	clauseInfo []*types.Info // stack of clause infos consulted before the frame's info
	oldStates  []*State
	top        *FuncInfo
	dry        int // >0: do not record obligations
	notes      []string
	abstracted map[string]bool // constructs that were havoc-abstracted
	paths      int
	curProps   []string
	loadSeen   map[string]bool
	sliceParent map[*Term]sliceParentInfo // []float64 slice expression -> (sliced value, low index)
	derefText   string
	clauseDepth int // > 0 while a contract clause (incl. spec functions it calls) is being evaluated
	equivRules  map[*Term][]equivRule
	inEquivInst bool
	pureFV     map[*Term]bool // function values known (by a resultpure contract) to be side-effect free
	curClause        *Clause
	nameCount        map[string]int
	poolRefs         []*Term
	entryCounters    bool
	steps            int
	started          time.Time
	frameC           *frameCtx
	inObjInv         bool
	objInvSeen       map[string]bool
	bndMentions      map[*Term][]*Term
	structRoot       map[*Term]*Term
	wfRoot           map[*Term]*Term
	sideObls         []*Obligation
	curTag           string
	hypTags          map[*Term]string
	blockDepth       int
	loopOrds         []int // ordinals of the loops of the function under verification whose body is being executed
	splitBudget      int
	goalMode         bool
	usedContracts    map[string]bool
	pendingWriteBack []writeBack
}

func (x *Exec) frame() *Frame { return x.frames[len(x.frames)-1] }

func (x *Exec) freshName(base string) string {
	x.fresh++
	return fmt.Sprintf("%s!%d", base, x.fresh)
}

func (x *Exec) freshVar(base string, s *Sort) *Term {
	return Var(sanitizeSym(x.freshName(base)), s)
}

func sanitizeSym(s string) string {
	var b strings.Builder
	for _, r := range s {
		if r >= 'a' && r <= 'z' || r >= 'A' && r <= 'Z' || r >= '0' && r <= '9' || r == '_' || r == '!' || r == '$' || r == '.' {
			b.WriteRune(r)
		} else {
			b.WriteRune('_')
		}
	}
	return b.String()
}

func (x *Exec) note(format string, args ...interface{}) {
	x.notes = append(x.notes, fmt.Sprintf(format, args...))
}

func (x *Exec) abstract(what string) {
	if x.abstracted == nil {
		x.abstracted = map[string]bool{}
	}
	x.abstracted[what] = true
}

func (x *Exec) pos(p token.Pos) string {
	ps := x.eng.fset.Position(p)
	fn := ps.Filename
	if i := strings.Index(fn, "/repo/"); i >= 0 {
		fn = fn[i+6:]
	}
	return fmt.Sprintf("%s:%d", fn, ps.Line)
}

// oblige records a proof obligation: under the state's assumptions, goal holds.
func (x *Exec) oblige(s *State, kind string, goal *Term, p token.Pos, text string) {
	if x.dry > 0 || s.dead {
		return
	}
	f := x.frames[0]
	if f.counts == nil {
		f.counts = map[string]int{}
	}
	// ordinal per kind within the verified function; obligations raised in inlined callees are
	// attributed to the top function with the callee's name in the kind
	k := kind
	if len(x.frames) > 1 {
		k = kind + "@" + x.frame().fi.Key
	}
	f.counts[k]++
	name := fmt.Sprintf("%s/%s#%d", x.top.Key, k, f.counts[k])
	o := &Obligation{Name: name, Kind: kind, Func: x.top.Key, Goal: goal, Pos: x.pos(p), Text: text, fi: x.top, Props: x.curProps}
	if goal == True {
		o.Trivial = true
	} else {
		o.Hyps = append([]*Term(nil), s.assumes...)
	}
	x.obls = append(x.obls, o)
}

// named obligation (clause ordinals are stable names)
func (x *Exec) obligeNamed(s *State, name, kind string, goal *Term, p string, text string) {
	if x.dry > 0 || s.dead {
		return
	}
	if goal.K == TApp && goal.Op == "and" && len(goal.Args) <= 24 {
		for i, g := range goal.Args {
			x.obligeNamed(s, fmt.Sprintf("%s.c%d", name, i+1), kind, g, p, text)
		}
		return
	}
	// forall k. (A => (B1 && B2 && ...))  ==>  one goal per conjunct
	if goal.K == TQuant && goal.Op == "forall" {
		body := goal.Args[0]
		var ante *Term = True
		if body.K == TApp && body.Op == "=>" {
			ante, body = body.Args[0], body.Args[1]
		}
		if body.K == TApp && body.Op == "and" && len(body.Args) <= 40 {
			for i, g := range body.Args {
				x.obligeNamed(s, fmt.Sprintf("%s.q%d", name, i+1), kind, Forall(goal.Bound, Implies(ante, g), goal.Pats...), p, text)
			}
			return
		}
	}
	o := &Obligation{Name: name, Kind: kind, Func: x.top.Key, Goal: goal, Pos: p, Text: text, fi: x.top, Props: x.curProps}
	if goal == True {
		o.Trivial = true
	} else {
		o.Hyps = append([]*Term(nil), s.assumes...)
	}
	o.Clause = x.curClause
	o.Tag = x.curTag
	o.HypTags = x.hypTags
	if x.nameCount == nil {
		x.nameCount = map[string]int{}
	}
	x.nameCount[name]++
	if c := x.nameCount[name]; c > 1 {
		o.Name = fmt.Sprintf("%s.path%d", name, c)
	}
	x.obls = append(x.obls, o)
}

// ---- merging ----

func suffixGuard(base, s *State) *Term {
	return And(s.assumes[len(base.assumes):]...)
}

// merge states that all extend base (their assumes have base.assumes as prefix)
func (x *Exec) merge(base *State, states ...*State) *State {
	var live []*State
	for _, s := range states {
		if s != nil && !s.dead {
			live = append(live, s)
		}
	}
	if len(live) == 0 {
		return nil
	}
	if len(live) == 1 {
		return live[0]
	}
	guards := make([]*Term, len(live))
	for i, s := range live {
		guards[i] = suffixGuard(base, s)
	}
	m := &State{env: map[types.Object]*Term{}, heap: map[string]*Term{}}
	m.epoch = live[0].epoch
	m.xepoch = live[0].xepoch
	m.hgen = live[0].hgen
	m.log = append([]string(nil), live[0].log...)
	m.logBad = live[0].logBad
	m.calls = append([]callRec(nil), live[0].calls...)
	m.callsOpen = live[0].callsOpen
	for _, s := range live {
		if s.callsOpen != m.callsOpen {
			m.callsOpen = true
			m.calls = nil
		} else if !sameCalls(s.calls, m.calls) {
			// keep the common prefix, then an unknown gap
			n := 0
			for n < len(s.calls) && n < len(m.calls) && sameCalls(s.calls[n:n+1], m.calls[n:n+1]) {
				n++
			}
			g := &mergeGap{names: map[string]bool{}}
			g.add(m.calls[n:])
			g.add(s.calls[n:])
			m.calls = append(append([]callRec(nil), m.calls[:n]...), callRec{name: "?", mg: g})
		}
		if s.epoch != m.epoch {
			m.epoch = nil
		}
		if s.xepoch != m.xepoch {
			m.xepoch = nil
		}
		if s.hgen != m.hgen {
			// heaps untouched on both paths have different unknown initial values: a new unknown for the merged state
			epochCounter++
			m.hgen = fmt.Sprintf("hm%d", epochCounter)
		}
		if s.logBad || strings.Join(s.log, "\x00") != strings.Join(m.log, "\x00") {
			m.logBad = true
		}
	}
	m.assumes = append([]*Term(nil), base.assumes...)
	m.assume(Or(guards...))
	last := live[len(live)-1]
	// env: keys present in all
	for k, v := range last.env {
		val := v
		ok := true
		for i := len(live) - 2; i >= 0; i-- {
			vi, has := live[i].env[k]
			if !has {
				ok = false
				break
			}
			if vi.S != val.S {
				ok = false
				break
			}
			val = Ite(guards[i], vi, val)
		}
		if ok {
			m.env[k] = val
		}
	}
	names := map[string]bool{}
	for _, s := range live {
		for k := range s.heap {
			names[k] = true
		}
	}
	for k := range names {
		var val *Term
		for i := len(live) - 1; i >= 0; i-- {
			vi, has := live[i].heap[k]
			if !has {
				vi = x.heapInit(k, nil)
				if vi == nil {
					continue
				}
			}
			if val == nil {
				val = vi
			} else {
				val = Ite(guards[i], vi, val)
			}
		}
		if val != nil {
			m.heap[k] = val
		}
	}
	return m
}

// ---- heap ----

// heap arrays are created lazily; the initial version is a free symbol named <name>@0.
var heapSorts = map[string]*Sort{}

func (x *Exec) heapInit(name string, s *Sort) *Term {
	if s == nil {
		s = heapSorts[name]
		if s == nil {
			return nil
		}
	} else {
		heapSorts[name] = s
	}
	return Var(name+"@0", s)
}

func (x *Exec) heapGet(s *State, name string, sort *Sort) *Term {
	if t, ok := s.heap[name]; ok {
		return t
	}
	t := x.heapInit(name, sort)
	// all states derived from the entry state see the same initial symbol; after a havoc of the whole heap a heap that
	// had not been touched before is a different unknown (named after that havoc event)
	if t != nil && s.hgen != "" && name != "$alloc" && name != "$balloc" && !strings.HasPrefix(name, "G_") {
		t = Var(name+"@"+s.hgen, t.S)
	}
	s.heap[name] = t
	return t
}

func (x *Exec) heapSet(s *State, name string, t *Term) {
	heapSorts[name] = t.S
	if old, ok := s.heap[name]; !ok || old != t {
		if name != "$alloc" && name != "$balloc" {
			s.epoch = nil
			if !ephemeralHeap(name) {
				s.xepoch = nil
			}
		}
	}
	s.heap[name] = t
}

// ephemeralHeap: memory that the deterministic functions of the font packages cannot read: the fields of
// strings.Builder / bytes.Buffer objects and []interface{} arrays (variadic argument lists, PDF arrays) of the
// verified module. Stores there leave the "external epoch" of those functions unchanged.
func ephemeralHeap(name string) bool {
	return strings.HasPrefix(name, "H_strings_Builder_") || strings.HasPrefix(name, "H_bytes_Buffer_") || name == memName(IfaceSort)
}

func (x *Exec) xepochOf(s *State) *Term {
	if s.xepoch == nil {
		s.xepoch = x.freshVar("xepoch", SInt)
	}
	return s.xepoch
}

func (x *Exec) epochOf(s *State) *Term {
	if s.epoch == nil {
		s.epoch = x.freshVar("epoch", SInt)
	}
	return s.epoch
}

func (x *Exec) havocHeap(s *State, name string) {
	t := s.heap[name]
	var sort *Sort
	if t != nil {
		sort = t.S
	} else {
		sort = heapSorts[name]
	}
	if sort == nil {
		return
	}
	s.heap[name] = x.freshVar(name, sort)
	if name != "$alloc" && name != "$balloc" {
		s.epoch = nil
		if !ephemeralHeap(name) {
			s.xepoch = nil
		}
	}
}

func (x *Exec) havocAllHeap(s *State) {
	epochCounter++
	s.hgen = fmt.Sprintf("hv%d", epochCounter)
	names := make([]string, 0, len(heapSorts))
	for k := range heapSorts {
		names = append(names, k)
	}
	sort.Strings(names)
	for _, k := range names {
		if strings.HasPrefix(k, "G_") {
			// package-level variables are only havoc'd when syntactically assigned (see havocVars) or by an
			// assigns clause; the library's tunables (Epsilon, Tolerance, ...) are assumed not to be written
			// behind the verifier's back (frame property checked for C20)
			continue
		}
		if k == "$alloc" || k == "$balloc" {
			old := x.heapGet(s, k, SInt)
			x.havocHeap(s, k)
			s.assume(Cmp("<=", old, s.heap[k]))
			continue
		}
		x.havocHeap(s, k)
	}
}

func fieldHeapName(si *structInfo, i int) string {
	return "H_" + si.name + "_" + si.fields[i].Name()
}

func memName(elem *Sort) string { return "Mem_" + elem.Mangle() }

func (x *Exec) memGet(s *State, elem *Sort) *Term {
	return x.heapGet(s, memName(elem), ArrayOf(SInt, ArrayOf(SInt, elem)))
}

func (x *Exec) allocRef(s *State) *Term {
	a := x.heapGet(s, "$alloc", SInt)
	r := x.freshVar("ref", SInt)
	s.assume(Eq(r, a))
	s.assume(Cmp(">", r, IntLit(0)))
	x.heapSet(s, "$alloc", Arith("+", a, IntLit(1)))
	return r
}

func (x *Exec) allocBlock(s *State) *Term {
	a := x.heapGet(s, "$balloc", SInt)
	r := x.freshVar("blk", SInt)
	s.assume(Eq(r, a))
	s.assume(Cmp(">", r, IntLit(0)))
	x.heapSet(s, "$balloc", Arith("+", a, IntLit(1)))
	return r
}

// typing invariants of a symbolic value of Go type t
func (x *Exec) typeInv(s *State, v *Term, t types.Type, depth int) *Term {
	if depth > 3 {
		return True
	}
	if x.entryCounters {
		// value read from the entry version of the heap: it was allocated before the function was entered
		tmp := &State{heap: map[string]*Term{"$alloc": Var("$alloc@0", SInt), "$balloc": Var("$balloc@0", SInt)}}
		x.entryCounters = false
		r := x.typeInv(tmp, v, t, depth)
		x.entryCounters = true
		return r
	}
	switch u := t.Underlying().(type) {
	case *types.Basic:
		if lo, hi, ok := intRange(t); ok {
			return And(Cmp("<=", IntLit(lo), v), Cmp("<=", v, IntLit(hi)))
		}
		if isUnsigned(t) {
			return Cmp("<=", IntLit(0), v)
		}
		if isString(t) {
			return And(Cmp("<=", IntLit(0), Field(v, 1)), Cmp("<=", IntLit(0), Field(v, 2)))
		}
	case *types.Slice:
		return And(
			Cmp("<=", IntLit(0), Field(v, 0)),
			Cmp("<", Field(v, 0), x.heapGet(s, "$balloc", SInt)),
			Cmp("<=", IntLit(0), Field(v, 1)),
			Cmp("<=", IntLit(0), Field(v, 2)),
			Cmp("<=", Field(v, 2), Field(v, 3)),
			Implies(Eq(Field(v, 0), IntLit(0)), Eq(Field(v, 3), IntLit(0))))
	case *types.Pointer:
		return And(Cmp("<=", IntLit(0), v), Cmp("<", v, x.heapGet(s, "$alloc", SInt)))
	case *types.Map:
		return And(Cmp("<=", IntLit(0), v), Cmp("<", v, x.heapGet(s, "$alloc", SInt)))
	case *types.Struct:
		si := x.eng.tm.structOf(t)
		var cs []*Term
		for i, f := range si.fields {
			cs = append(cs, x.typeInv(s, Field(v, i), f.Type(), depth+1))
		}
		return And(cs...)
	case *types.Array:
		if u.Len() <= 8 {
			var cs []*Term
			for i := int64(0); i < u.Len(); i++ {
				cs = append(cs, x.typeInv(s, arrGet(v, IntLit(i), u.Len()), u.Elem(), depth+1))
			}
			return And(cs...)
		}
	}
	return True
}

func (x *Exec) havocValue(s *State, base string, t types.Type) *Term {
	v := x.freshVar(base, x.eng.tm.sortOf(t))
	s.assume(x.typeInv(s, v, t, 0))
	if isPointer(t) {
		x.assumeObjInv(s, v, t)
	}
	return v
}

func (x *Exec) zero(t types.Type) *Term {
	switch u := t.Underlying().(type) {
	case *types.Basic:
		info := u.Info()
		switch {
		case info&types.IsBoolean != 0:
			return False
		case info&types.IsInteger != 0:
			return IntLit(0)
		case info&types.IsFloat != 0:
			return RealLitF(0)
		case info&types.IsString != 0:
			return x.strLit("")
		}
		return IntLit(0)
	case *types.Struct:
		si := x.eng.tm.structOf(t)
		args := make([]*Term, len(si.sort.Fields))
		for i := range args {
			if i < len(si.fields) {
				args[i] = x.zero(si.fields[i].Type())
			} else {
				args[i] = IntLit(0)
			}
		}
		return Mk(si.sort, args...)
	case *types.Array:
		es := x.eng.tm.sortOf(u.Elem())
		if as := x.eng.tm.sortOf(t); as.Kind == KDT {
			args := make([]*Term, len(as.Fields))
			for i := range args {
				if u.Len() == 0 {
					args[i] = IntLit(0)
				} else {
					args[i] = x.zero(u.Elem())
				}
			}
			return Mk(as, args...)
		}
		return App("(as const "+ArrayOf(SInt, es).String()+")", ArrayOf(SInt, es), x.zero(u.Elem()))
	case *types.Slice:
		return Mk(SliceSort, IntLit(0), IntLit(0), IntLit(0), IntLit(0))
	case *types.Interface:
		return Mk(IfaceSort, IntLit(0), IntLit(0))
	}
	return IntLit(0)
}

func (x *Exec) strLit(v string) *Term {
	arr := App("(as const (Array Int Int))", ArrayOf(SInt, SInt), IntLit(0))
	for i := 0; i < len(v); i++ {
		arr = Store(arr, IntLit(int64(i)), IntLit(int64(v[i])))
	}
	return Mk(StrSort, arr, IntLit(0), IntLit(int64(len(v))))
}

// ---- types info lookup ----

func (x *Exec) tv(e ast.Expr) (types.TypeAndValue, bool) {
	for i := len(x.clauseInfo) - 1; i >= 0; i-- {
		if tv, ok := x.clauseInfo[i].Types[e]; ok {
			return tv, true
		}
	}
	for i := len(x.frames) - 1; i >= 0; i-- {
		if tv, ok := x.frames[i].info.Types[e]; ok {
			return tv, true
		}
	}
	return types.TypeAndValue{}, false
}

func (x *Exec) typeOf(e ast.Expr) types.Type {
	if tv, ok := x.tv(e); ok {
		return tv.Type
	}
	if id, ok := e.(*ast.Ident); ok {
		if o := x.objOf(id); o != nil {
			return o.Type()
		}
	}
	return nil
}

func (x *Exec) objOf(id *ast.Ident) types.Object {
	for i := len(x.clauseInfo) - 1; i >= 0; i-- {
		if o, ok := x.clauseInfo[i].Uses[id]; ok {
			return o
		}
		if o, ok := x.clauseInfo[i].Defs[id]; ok && o != nil {
			return o
		}
	}
	for i := len(x.frames) - 1; i >= 0; i-- {
		if o, ok := x.frames[i].info.Uses[id]; ok {
			return o
		}
		if o, ok := x.frames[i].info.Defs[id]; ok && o != nil {
			return o
		}
	}
	return nil
}

func (x *Exec) selection(e *ast.SelectorExpr) *types.Selection {
	for i := len(x.clauseInfo) - 1; i >= 0; i-- {
		if o, ok := x.clauseInfo[i].Selections[e]; ok {
			return o
		}
	}
	for i := len(x.frames) - 1; i >= 0; i-- {
		if o, ok := x.frames[i].info.Selections[e]; ok {
			return o
		}
	}
	return nil
}

// ---- statements ----

// execBlock executes statements; returns the (merged) fall-through state or nil.
func (x *Exec) execBlock(s *State, list []ast.Stmt) *State {
	if s == nil || s.dead {
		return nil
	}
	base := s.clone()
	outs := x.execBlockM([]*State{s}, list)
	return x.merge(base, outs...)
}

// splitActive: path splitting is requested for the function under verification and there is budget left
func (x *Exec) splitActive(nested bool) bool {
	if len(x.frames) != 1 || x.splitBudget <= 0 {
		return false
	}
	c := x.frames[0].contract
	if c == nil || c.Split == 0 {
		return false
	}
	if nested && !c.SplitDeep {
		return false
	}
	if c.SplitLoops != nil {
		for _, o := range x.loopOrds {
			if c.SplitLoops[o] {
				return true
			}
		}
		return false
	}
	return true
}

// execBlockM executes the statements on every incoming state and keeps the resulting states apart
// (path splitting) as long as the split budget allows; otherwise branches are merged at their joins.
func (x *Exec) execBlockM(states []*State, list []ast.Stmt) []*State {
	x.blockDepth++
	defer func() { x.blockDepth-- }()
	for _, st := range list {
		var next []*State
		for _, s := range states {
			if s == nil || s.dead {
				continue
			}
			next = append(next, x.execStmtM(s, st)...)
		}
		states = next
		if len(states) == 0 {
			return nil
		}
	}
	return states
}

// execStmtM: branching statements may return several states; everything else returns at most one.
func (x *Exec) execStmtM(s *State, st ast.Stmt) []*State {
	one := func(r *State) []*State {
		if r == nil || r.dead {
			return nil
		}
		return []*State{r}
	}
	switch n := st.(type) {
	case *ast.BlockStmt:
		return x.execBlockM([]*State{s}, n.List)
	case *ast.LabeledStmt:
		x.frame().label = n.Label.Name
		return x.execStmtM(s, n.Stmt)
	case *ast.IfStmt:
		base := s.clone()
		outs := x.execIfM(s, n)
		return x.splitOrMerge(base, outs)
	case *ast.SwitchStmt:
		base := s.clone()
		outs := x.execSwitchM(s, n)
		return x.splitOrMerge(base, outs)
	}
	return one(x.execStmt(s, st))
}

func (x *Exec) splitOrMerge(base *State, outs []*State) []*State {
	var live []*State
	for _, o := range outs {
		if o != nil && !o.dead {
			live = append(live, o)
		}
	}
	if len(live) <= 1 {
		return live
	}
	// branches that did not touch the heap are always merged (only values differ: cheap ite)
	sameHeap := true
	for _, o := range live[1:] {
		if strings.Join(o.log, "\x00") != strings.Join(live[0].log, "\x00") {
			sameHeap = false
			break
		}
		val := func(st *State, k string) *Term {
			if v, ok := st.heap[k]; ok {
				return v
			}
			return x.heapInit(k, nil)
		}
		for k := range o.heap {
			if val(live[0], k) != val(o, k) {
				sameHeap = false
				break
			}
		}
		for k := range live[0].heap {
			if val(live[0], k) != val(o, k) {
				sameHeap = false
				break
			}
		}
	}
	// blockDepth 1 = function body, loop bodies reset the depth (see cutLoop)
	if os.Getenv("GOVC_TRACE") != "" {
		fmt.Fprintf(os.Stderr, "join: %d live, sameHeap=%v depth=%d budget=%d frames=%d active=%v\n", len(live), sameHeap, x.blockDepth, x.splitBudget, len(x.frames), x.splitActive(x.blockDepth > 1))
	}
	if !sameHeap && x.splitActive(x.blockDepth > 1) {
		x.splitBudget -= len(live) - 1
		return live
	}
	m := x.merge(base, live...)
	if m == nil {
		return nil
	}
	return []*State{m}
}

func (x *Exec) execStmt(s *State, st ast.Stmt) *State {
	x.steps++
	if x.steps%64 == 0 {
		if x.started.IsZero() {
			x.started = time.Now()
		} else if time.Since(x.started) > 90*time.Second {
			panic("symbolic execution budget exceeded (90 s): function out of reach as annotated")
		}
	}
	if len(x.obls) > 30000 {
		panic("verification condition budget exceeded (30000 obligations): function out of reach as annotated")
	}
	switch n := st.(type) {
	case *ast.BlockStmt:
		return x.execBlock(s, n.List)
	case *ast.ExprStmt:
		if call, ok := n.X.(*ast.CallExpr); ok {
			x.callMulti(s, call)
		} else {
			x.eval(s, n.X)
		}
		if s.dead {
			return nil
		}
		return s
	case *ast.AssignStmt:
		x.execAssign(s, n)
		if s.dead {
			return nil
		}
		return s
	case *ast.IncDecStmt:
		v := x.eval(s, n.X)
		one := IntLit(1)
		var nv *Term
		if n.Tok == token.INC {
			nv = Arith("+", v, one)
		} else {
			nv = Arith("-", v, one)
		}
		nv = x.wrapInt(nv, x.typeOf(n.X))
		x.assign(s, n.X, nv)
		return s
	case *ast.DeclStmt:
		gd, ok := n.Decl.(*ast.GenDecl)
		if !ok {
			return s
		}
		for _, sp := range gd.Specs {
			vs, ok := sp.(*ast.ValueSpec)
			if !ok {
				continue
			}
			if len(vs.Values) == len(vs.Names) {
				for i, name := range vs.Names {
					v := x.eval(s, vs.Values[i])
					obj := x.frame().info.Defs[name]
					if obj != nil {
						s.env[obj] = x.convertTo(s, v, x.typeOf(vs.Values[i]), obj.Type())
					}
				}
			} else if len(vs.Values) == 0 {
				for _, name := range vs.Names {
					obj := x.frame().info.Defs[name]
					if obj != nil {
						s.env[obj] = x.zero(obj.Type())
					}
				}
			} else if len(vs.Values) == 1 {
				vals := x.evalMulti(s, vs.Values[0])
				for i, name := range vs.Names {
					obj := x.frame().info.Defs[name]
					if obj != nil && i < len(vals) {
						s.env[obj] = vals[i]
					}
				}
			}
		}
		return s
	case *ast.IfStmt:
		base := s.clone()
		return x.merge(base, x.execIfM(s, n)...)
	case *ast.SwitchStmt:
		base := s.clone()
		return x.merge(base, x.execSwitchM(s, n)...)
	case *ast.TypeSwitchStmt:
		return x.execTypeSwitch(s, n)
	case *ast.ForStmt:
		return x.execFor(s, n)
	case *ast.RangeStmt:
		return x.execRange(s, n)
	case *ast.ReturnStmt:
		x.execReturn(s, n)
		return nil
	case *ast.BranchStmt:
		return x.execBranch(s, n)
	case *ast.LabeledStmt:
		x.frame().label = n.Label.Name
		return x.execStmt(s, n.Stmt)
	case *ast.EmptyStmt:
		return s
	case *ast.DeferStmt:
		x.abstract("defer")
		x.note("%s: defer not modelled", x.pos(n.Pos()))
		return s
	case *ast.GoStmt:
		x.abstract("go")
		return s
	case *ast.SendStmt, *ast.SelectStmt:
		x.abstract("channel")
		x.havocAllHeap(s)
		return s
	}
	x.abstract(fmt.Sprintf("stmt %T", st))
	return s
}

func (x *Exec) execBranch(s *State, n *ast.BranchStmt) *State {
	f := x.frame()
	switch n.Tok {
	case token.BREAK, token.CONTINUE:
		var lc *loopCtx
		if n.Label != nil {
			for i := len(f.loops) - 1; i >= 0; i-- {
				if f.loops[i].label == n.Label.Name {
					lc = f.loops[i]
					break
				}
			}
		} else {
			// innermost loop for continue; innermost loop or switch for break
			for i := len(f.loops) - 1; i >= 0; i-- {
				if n.Tok == token.CONTINUE && strings.HasPrefix(f.loops[i].label, "$switch") {
					continue
				}
				lc = f.loops[i]
				break
			}
		}
		if lc == nil {
			x.abstract("branch to unknown label")
			return nil
		}
		if n.Tok == token.BREAK {
			lc.breaks = append(lc.breaks, s)
		} else {
			lc.conts = append(lc.conts, s)
		}
		return nil
	case token.GOTO:
		x.abstract("goto")
		x.note("%s: goto not modelled; path abandoned", x.pos(n.Pos()))
		x.top.hasGoto = true
		return nil
	case token.FALLTHROUGH:
		x.abstract("fallthrough")
		return s
	}
	return s
}

func (x *Exec) execIfM(s *State, n *ast.IfStmt) []*State {
	if n.Init != nil {
		s = x.execStmt(s, n.Init)
		if s == nil {
			return nil
		}
	}
	c := x.evalCond(s, n.Cond)
	if s.dead {
		return nil
	}
	// syntactic pruning: a branch whose condition contradicts a conjunct already on the path is not explored
	c = x.pruneCond(s, c)
	var outs []*State
	if c != False {
		t := s.clone()
		t.assume(c)
		outs = append(outs, x.execBlockM([]*State{t}, n.Body.List)...)
	}
	if c != True {
		e := s.clone()
		e.assume(Not(c))
		if n.Else != nil {
			outs = append(outs, x.execStmtM(e, n.Else)...)
		} else {
			outs = append(outs, e)
		}
	}
	return outs
}

func (x *Exec) execSwitchM(s *State, n *ast.SwitchStmt) []*State {
	if n.Init != nil {
		s = x.execStmt(s, n.Init)
		if s == nil {
			return nil
		}
	}
	var tag *Term
	if n.Tag != nil {
		tag = x.eval(s, n.Tag)
	}
	f := x.frame()
	lc := &loopCtx{label: "$switch"}
	if f.label != "" {
		lc.label = f.label
		f.label = ""
	}
	f.loops = append(f.loops, lc)
	var outs []*State
	rest := s.clone() // state in which no earlier case matched
	var defaultClause *ast.CaseClause
	clauses := n.Body.List
	for ci := 0; ci < len(clauses); ci++ {
		cc := clauses[ci].(*ast.CaseClause)
		if cc.List == nil {
			defaultClause = cc
			continue
		}
		var conds []*Term
		for _, e := range cc.List {
			if tag != nil {
				v := x.eval(rest, e)
				conds = append(conds, x.equalTerms(rest, tag, v, x.typeOf(n.Tag)))
			} else {
				conds = append(conds, x.evalCond(rest, e))
			}
		}
		c := Or(conds...)
		if c != False {
			t := rest.clone()
			t.assume(c)
			body := cc.Body
			// fallthrough: append next clause's body
			for len(body) > 0 {
				if bs, ok := body[len(body)-1].(*ast.BranchStmt); ok && bs.Tok == token.FALLTHROUGH && ci+1 < len(clauses) {
					next := clauses[ci+1].(*ast.CaseClause)
					body = append(append([]ast.Stmt(nil), body[:len(body)-1]...), next.Body...)
					ci2 := ci + 1
					_ = ci2
					break
				}
				break
			}
			outs = append(outs, x.execBlockM([]*State{t}, body)...)
		}
		rest.assume(Not(c))
		if rest.dead {
			break
		}
	}
	if !rest.dead {
		if defaultClause != nil {
			outs = append(outs, x.execBlockM([]*State{rest}, defaultClause.Body)...)
		} else {
			outs = append(outs, rest)
		}
	}
	f.loops = f.loops[:len(f.loops)-1]
	outs = append(outs, lc.breaks...)
	return outs
}

func (x *Exec) execTypeSwitch(s *State, n *ast.TypeSwitchStmt) *State {
	// x := v.(type): evaluate the operand; each clause assumes the dynamic tag
	var operand ast.Expr
	var bind *ast.Ident
	switch a := n.Assign.(type) {
	case *ast.AssignStmt:
		bind = a.Lhs[0].(*ast.Ident)
		operand = a.Rhs[0].(*ast.TypeAssertExpr).X
	case *ast.ExprStmt:
		operand = a.X.(*ast.TypeAssertExpr).X
	}
	if n.Init != nil {
		s = x.execStmt(s, n.Init)
		if s == nil {
			return nil
		}
	}
	v := x.eval(s, operand)
	f := x.frame()
	lc := &loopCtx{label: "$switch"}
	f.loops = append(f.loops, lc)
	var outs []*State
	rest := s.clone()
	var defaultClause *ast.CaseClause
	for _, c := range n.Body.List {
		cc := c.(*ast.CaseClause)
		if cc.List == nil {
			defaultClause = cc
			continue
		}
		var conds []*Term
		var single types.Type
		for _, e := range cc.List {
			t := x.typeOf(e)
			if t == nil || isNilType(t) {
				conds = append(conds, Eq(Field(v, 0), IntLit(0)))
				continue
			}
			if isInterface(t) {
				x.abstract("type switch on interface case")
				conds = append(conds, x.freshVar("ifacecase", SBool))
				continue
			}
			conds = append(conds, Eq(Field(v, 0), IntLit(int64(x.eng.tm.tagOf(t)))))
			if len(cc.List) == 1 {
				single = t
			}
		}
		cnd := Or(conds...)
		t := rest.clone()
		t.assume(cnd)
		if bind != nil {
			if obj := x.frame().info.Implicits[cc]; obj != nil {
				if single != nil {
					t.env[obj] = x.unbox(t, v, single)
				} else {
					t.env[obj] = v
				}
			}
		}
		if out := x.execBlock(t, cc.Body); out != nil {
			outs = append(outs, out)
		}
		rest.assume(Not(cnd))
	}
	if !rest.dead {
		if defaultClause != nil {
			if bind != nil {
				if obj := x.frame().info.Implicits[defaultClause]; obj != nil {
					rest.env[obj] = v
				}
			}
			if out := x.execBlock(rest, defaultClause.Body); out != nil {
				outs = append(outs, out)
			}
		} else {
			outs = append(outs, rest)
		}
	}
	f.loops = f.loops[:len(f.loops)-1]
	outs = append(outs, lc.breaks...)
	return x.merge(s, outs...)
}

func isNilType(t types.Type) bool {
	b, ok := t.(*types.Basic)
	return ok && b.Kind() == types.UntypedNil
}

func (x *Exec) execReturn(s *State, n *ast.ReturnStmt) {
	f := x.frame()
	var vals []*Term
	sig := f.fi.Obj.Type().(*types.Signature)
	if f.closureSig != nil {
		sig = f.closureSig
	}
	if len(n.Results) == 0 {
		for _, r := range f.results {
			vals = append(vals, s.env[r])
		}
	} else if len(n.Results) == 1 && sig.Results().Len() > 1 {
		vals = x.evalMulti(s, n.Results[0])
	} else {
		for i, e := range n.Results {
			v := x.eval(s, e)
			v = x.convertTo(s, v, x.typeOf(e), sig.Results().At(i).Type())
			vals = append(vals, v)
		}
	}
	if s.dead {
		return
	}
	f.rets = append(f.rets, &RetState{s: s, vals: vals})
}

// ---- assignment ----

func (x *Exec) execAssign(s *State, n *ast.AssignStmt) {
	if n.Tok == token.ASSIGN || n.Tok == token.DEFINE {
		var vals []*Term
		var vtypes []types.Type
		if len(n.Rhs) == 1 && len(n.Lhs) > 1 {
			vals = x.evalMulti(s, n.Rhs[0])
			if tup, ok := x.typeOf(n.Rhs[0]).(*types.Tuple); ok {
				for i := 0; i < tup.Len(); i++ {
					vtypes = append(vtypes, tup.At(i).Type())
				}
			}
		} else {
			for _, r := range n.Rhs {
				vals = append(vals, x.eval(s, r))
				vtypes = append(vtypes, x.typeOf(r))
			}
		}
		if s.dead {
			return
		}
		for i, l := range n.Lhs {
			if i >= len(vals) {
				break
			}
			v := vals[i]
			if id, ok := l.(*ast.Ident); ok && id.Name == "_" {
				continue
			}
			lt := x.typeOf(l)
			if lt == nil {
				if id, ok := l.(*ast.Ident); ok {
					if o := x.frame().info.Defs[id]; o != nil {
						lt = o.Type()
					}
				}
			}
			if i < len(vtypes) && vtypes[i] != nil && lt != nil {
				v = x.convertTo(s, v, vtypes[i], lt)
			}
			// closures bound to local names
			if len(n.Rhs) == len(n.Lhs) {
				if fl, ok := n.Rhs[i].(*ast.FuncLit); ok {
					if id, ok := l.(*ast.Ident); ok {
						if o := x.objOf(id); o != nil {
							if x.frame().closures == nil {
								x.frame().closures = map[types.Object]*ast.FuncLit{}
							}
							x.frame().closures[o] = fl
						}
					}
				}
			}
			x.assign(s, l, v)
		}
		return
	}
	// op=
	op := map[token.Token]token.Token{
		token.ADD_ASSIGN: token.ADD, token.SUB_ASSIGN: token.SUB, token.MUL_ASSIGN: token.MUL,
		token.QUO_ASSIGN: token.QUO, token.REM_ASSIGN: token.REM, token.AND_ASSIGN: token.AND,
		token.OR_ASSIGN: token.OR, token.XOR_ASSIGN: token.XOR, token.SHL_ASSIGN: token.SHL,
		token.SHR_ASSIGN: token.SHR, token.AND_NOT_ASSIGN: token.AND_NOT,
	}[n.Tok]
	l := x.eval(s, n.Lhs[0])
	r := x.eval(s, n.Rhs[0])
	v := x.binop(s, op, l, r, x.typeOf(n.Lhs[0]), x.typeOf(n.Rhs[0]), n.Pos())
	x.assign(s, n.Lhs[0], v)
}

// assign stores v into the location denoted by lhs.
func (x *Exec) assign(s *State, lhs ast.Expr, v *Term) {
	switch l := lhs.(type) {
	case *ast.ParenExpr:
		x.assign(s, l.X, v)
	case *ast.Ident:
		if l.Name == "_" {
			return
		}
		obj := x.objOf(l)
		if obj == nil {
			return
		}
		if vr, ok := obj.(*types.Var); ok && x.isGlobal(vr) {
			x.heapSet(s, x.globalName(vr), v)
			return
		}
		want := x.eng.tm.sortOf(obj.Type())
		if v.S != want {
			if want == SReal && v.S == SInt {
				v = ToReal(v)
			} else {
				x.note("assign sort mismatch for %s: %s vs %s", l.Name, want, v.S)
				v = x.freshVar("mismatch", want)
			}
		}
		s.env[obj] = v
	case *ast.SelectorExpr:
		sel := x.selection(l)
		if sel == nil {
			// qualified identifier pkg.Var
			if obj, ok := x.objOf(l.Sel).(*types.Var); ok {
				x.heapSet(s, x.globalName(obj), v)
			}
			return
		}
		x.assignPath(s, l.X, x.typeOf(l.X), sel.Index(), v, l.Pos())
	case *ast.IndexExpr:
		bt := x.typeOf(l.X)
		switch u := bt.Underlying().(type) {
		case *types.Slice:
			sv := x.eval(s, l.X)
			idx := x.eval(s, l.Index)
			x.oblige(s, "index", And(Cmp("<=", IntLit(0), idx), Cmp("<", idx, Field(sv, 2))), l.Pos(), exprString(l))
			s.assume(And(Cmp("<=", IntLit(0), idx), Cmp("<", idx, Field(sv, 2))))
			es := x.eng.tm.sortOf(u.Elem())
			mem := x.memGet(s, es)
			blk := Field(sv, 0)
			abs := Arith("+", Field(sv, 1), idx)
			v = x.fit(v, es)
			oldArr := Select(mem, blk)
			if es == SReal && x.eng.usedWf && x.dry == 0 && v.K == TApp {
				// name the stored value (keeps store terms usable in quantifier patterns)
				nv := x.freshVar("val", v.S)
				s.assume(Eq(nv, v))
				v = nv
			}
			newArr := Store(oldArr, abs, v)
			x.heapSet(s, memName(es), Store(mem, blk, newArr))
			if es == SReal && x.eng.usedWf {
				if !x.wfStructuralStore(s, oldArr, newArr, Field(sv, 1), Field(sv, 2), idx, l.Pos()) {
					if x.wfRoot == nil {
						x.wfRoot = map[*Term]*Term{}
					}
					root := oldArr
					if r, ok := x.wfRoot[oldArr]; ok {
						root = r
					}
					x.wfRoot[newArr] = root
					x.wfRecordRewriteRule(s, root, newArr, Field(sv, 1), Field(sv, 2), idx)
				}
			}
		case *types.Array:
			arr := x.eval(s, l.X)
			idx := x.eval(s, l.Index)
			x.oblige(s, "index", And(Cmp("<=", IntLit(0), idx), Cmp("<", idx, IntLit(u.Len()))), l.Pos(), exprString(l))
			x.assign(s, l.X, arrSet(arr, idx, x.fit(v, x.eng.tm.sortOf(u.Elem())), u.Len()))
		case *types.Pointer:
			// pointer to array
			if at, ok := u.Elem().Underlying().(*types.Array); ok {
				ref := x.eval(s, l.X)
				idx := x.eval(s, l.Index)
				x.oblige(s, "index", And(Cmp("<=", IntLit(0), idx), Cmp("<", idx, IntLit(at.Len()))), l.Pos(), exprString(l))
				arr := x.loadDeref(s, ref, u.Elem(), l.Pos())
				x.storeDeref(s, ref, u.Elem(), arrSet(arr, idx, v, at.Len()))
			}
		case *types.Map:
			m := x.eval(s, l.X)
			k := x.eval(s, l.Index)
			x.oblige(s, "nilmap", Not(Eq(m, IntLit(0))), l.Pos(), exprString(l))
			x.mapStore(s, bt, m, k, v)
		default:
			x.abstract("index assign on " + bt.String())
		}
	case *ast.StarExpr:
		ref := x.eval(s, l.X)
		x.oblige(s, "nil", Not(Eq(ref, IntLit(0))), l.Pos(), exprString(l))
		x.storeDeref(s, ref, elemOfPointer(x.typeOf(l.X)), v)
	default:
		x.abstract(fmt.Sprintf("assign to %T", lhs))
	}
}

func (x *Exec) fit(v *Term, want *Sort) *Term {
	if v.S == want {
		return v
	}
	if want == SReal && v.S == SInt {
		return ToReal(v)
	}
	x.note("value sort mismatch: want %s got %s", want, v.S)
	return x.freshVar("mismatch", want)
}

// assignPath assigns v to base.<path> where path is a go/types selection index path.
func (x *Exec) assignPath(s *State, base ast.Expr, bt types.Type, path []int, v *Term, p token.Pos) {
	if len(path) == 0 {
		x.assign(s, base, v)
		return
	}
	if isPointer(bt) {
		ref := x.eval(s, base)
		x.oblige(s, "nil", Not(Eq(ref, IntLit(0))), p, exprString(base))
		s.assume(Not(Eq(ref, IntLit(0))))
		x.storeRefPath(s, ref, elemOfPointer(bt), path, v, p)
		return
	}
	// struct value: read-modify-write
	cur := x.eval(s, base)
	nv := x.updatePath(s, cur, bt, path, v, p)
	x.assign(s, base, nv)
}

// updatePath returns cur with the field at path replaced by v (value-level); stops at pointers (heap store)
func (x *Exec) updatePath(s *State, cur *Term, t types.Type, path []int, v *Term, p token.Pos) *Term {
	if len(path) == 0 {
		return x.fit(v, cur.S)
	}
	if isPointer(t) {
		x.oblige(s, "nil", Not(Eq(cur, IntLit(0))), p, "embedded pointer")
		x.storeRefPath(s, cur, elemOfPointer(t), path, v, p)
		return cur
	}
	si := x.eng.tm.structOf(t)
	i := path[0]
	inner := x.updatePath(s, Field(cur, i), si.fields[i].Type(), path[1:], v, p)
	return WithField(cur, i, inner)
}

func (x *Exec) storeRefPath(s *State, ref *Term, t types.Type, path []int, v *Term, p token.Pos) {
	si := x.eng.tm.structOf(t)
	i := path[0]
	hn := fieldHeapName(si, i)
	h := x.heapGet(s, hn, ArrayOf(SInt, si.sort.Fields[i].S))
	cur := Select(h, ref)
	nv := x.updatePath(s, cur, si.fields[i].Type(), path[1:], v, p)
	x.heapSet(s, hn, Store(h, ref, nv))
}

func (x *Exec) loadDeref(s *State, ref *Term, t types.Type, p token.Pos) *Term {
	if isStruct(t) {
		si := x.eng.tm.structOf(t)
		args := make([]*Term, len(si.sort.Fields))
		for i := range args {
			if i < len(si.fields) {
				args[i] = x.loadField(s, ref, si, i)
			} else {
				args[i] = IntLit(0)
			}
		}
		return Mk(si.sort, args...)
	}
	hn := "H_" + shortTypeName(t) + "_val"
	h := x.heapGet(s, hn, ArrayOf(SInt, x.eng.tm.sortOf(t)))
	v := Select(h, ref)
	switch t.Underlying().(type) {
	case *types.Slice, *types.Pointer, *types.Map:
		if !ref.hasBound {
			s.assume(x.typeInv(s, v, t, 0))
		}
	}
	return v
}

func (x *Exec) storeDeref(s *State, ref *Term, t types.Type, v *Term) {
	if isStruct(t) {
		si := x.eng.tm.structOf(t)
		for i := range si.fields {
			hn := fieldHeapName(si, i)
			h := x.heapGet(s, hn, ArrayOf(SInt, si.sort.Fields[i].S))
			x.heapSet(s, hn, Store(h, ref, Field(v, i)))
		}
		return
	}
	hn := "H_" + shortTypeName(t) + "_val"
	h := x.heapGet(s, hn, ArrayOf(SInt, x.eng.tm.sortOf(t)))
	x.heapSet(s, hn, Store(h, ref, v))
}

func (x *Exec) loadField(s *State, ref *Term, si *structInfo, i int) *Term {
	hn := fieldHeapName(si, i)
	h := x.heapGet(s, hn, ArrayOf(SInt, si.sort.Fields[i].S))
	v := Select(h, ref)
	// typing facts for loaded slices/pointers (global heap invariant: everything stored was allocated before)
	ft := si.fields[i].Type()
	switch ft.Underlying().(type) {
	case *types.Slice, *types.Pointer, *types.Map:
		key := fmt.Sprintf("%d/%d", h.id, ref.id)
		if x.loadSeen == nil {
			x.loadSeen = map[string]bool{}
		}
		if v.K == TApp && v.Op == "select" {
			_ = key
			if h.K == TVar && strings.HasSuffix(h.Op, "@0") {
				// a cell of the ENTRY heap describes an object only if that object existed at entry: for such an
				// object what it refers to was allocated before entry. A cell at a reference allocated later (the
				// fresh result of an `assigns nothing` callee) is not constrained by this.
				x.entryCounters = true
				entryInv := x.typeInv(s, v, ft, 0)
				x.entryCounters = false
				if ref.K == TVar && strings.HasPrefix(ref.Op, "p_") {
					s.assume(entryInv) // a parameter / receiver: allocated at entry
				} else {
					s.assume(Implies(Cmp("<", ref, Var("$alloc@0", SInt)), entryInv))
				}
			}
			s.assume(x.typeInv(s, v, ft, 0))
		}
		x.assumeObjInv(s, v, ft)
	}
	return v
}

func exprString(e ast.Expr) string {
	return types.ExprString(e)
}

func sameCalls(a, b []callRec) bool {
	if len(a) != len(b) {
		return false
	}
	for i := range a {
		if a[i].name != b[i].name || len(a[i].args) != len(b[i].args) || a[i].hide != b[i].hide || a[i].mg != b[i].mg {
			return false
		}
		for j := range a[i].args {
			if a[i].args[j] != b[i].args[j] {
				return false
			}
		}
	}
	return true
}

// pruneCond returns False (True) when the path condition of s syntactically refutes (establishes) c: some
// conjunct of c is the negation of an assumed conjunct (every conjunct of c is an assumed conjunct). Sound: only
// branches that are unreachable under the current assumptions are dropped.
func (x *Exec) pruneCond(s *State, c *Term) *Term {
	if c == True || c == False {
		return c
	}
	if len(x.clauseInfo) > 0 || x.clauseDepth > 0 {
		// inside a contract clause / spec function: keep both branches, so that the term built for a spec function
		// does not depend on the path condition (code-side and spec-side terms stay syntactically comparable)
		return c
	}
	known := map[*Term]bool{}
	var add func(t *Term)
	add = func(t *Term) {
		if t.K == TApp && t.Op == "and" {
			for _, a := range t.Args {
				add(a)
			}
			return
		}
		known[t] = true
	}
	for _, h := range s.assumes {
		add(h)
	}
	conj := []*Term{c}
	if c.K == TApp && c.Op == "and" {
		conj = c.Args
	}
	all := true
	for _, k := range conj {
		if known[Not(k)] {
			return False
		}
		if !known[k] {
			all = false
		}
	}
	if all {
		return True
	}
	// c is a negation of a conjunction all of whose conjuncts are known: c is false
	if c.K == TApp && c.Op == "not" {
		inner := c.Args[0]
		ic := []*Term{inner}
		if inner.K == TApp && inner.Op == "and" {
			ic = inner.Args
		}
		ok := true
		for _, k := range ic {
			if !known[k] {
				ok = false
			}
		}
		if ok {
			return False
		}
	}
	return c
}
