package main

// SMT term layer: sorts, hash-consed-ish terms with light simplification, and
// SMT-LIB printing with sharing (define-fun hoisting for closed shared subterms).

import (
	"fmt"
	"math/big"
	"sort"
	"strconv"
	"strings"
)

type SortKind int

const (
	KBool SortKind = iota
	KInt
	KReal
	KDT
	KArray
)

type Sort struct {
	Kind   SortKind
	Name   string // for KDT
	Key    *Sort  // for KArray
	Elem   *Sort  // for KArray
	Fields []DTField
}

type DTField struct {
	Name string // SMT selector name (globally unique)
	S    *Sort
}

var (
	SBool = &Sort{Kind: KBool}
	SInt  = &Sort{Kind: KInt}
	SReal = &Sort{Kind: KReal}
)

var arraySorts = map[string]*Sort{}

func ArrayOf(k, e *Sort) *Sort {
	key := k.String() + "->" + e.String()
	if s, ok := arraySorts[key]; ok {
		return s
	}
	s := &Sort{Kind: KArray, Key: k, Elem: e}
	arraySorts[key] = s
	return s
}

func (s *Sort) String() string {
	switch s.Kind {
	case KBool:
		return "Bool"
	case KInt:
		return "Int"
	case KReal:
		return "Real"
	case KDT:
		return s.Name
	case KArray:
		return "(Array " + s.Key.String() + " " + s.Elem.String() + ")"
	}
	return "?"
}

// mangled name usable inside identifiers
func (s *Sort) Mangle() string {
	switch s.Kind {
	case KBool:
		return "B"
	case KInt:
		return "I"
	case KReal:
		return "R"
	case KDT:
		return s.Name
	case KArray:
		return "A" + s.Key.Mangle() + "_" + s.Elem.Mangle()
	}
	return "?"
}

type TKind int

const (
	TLit   TKind = iota // literal: Op holds SMT text
	TVar                // free constant symbol
	TBound              // bound variable
	TApp                // application of Op to Args
	TQuant              // forall/exists: Op, Bound, Args[0]
)

type Term struct {
	K        TKind
	Op       string
	Args     []*Term
	S        *Sort
	Bound    []*Term
	Pats     [][]*Term // optional patterns for quantifiers
	hasBound bool
	id       int
	rat      *big.Rat // for numeric literals
	def      *Term    // for named array versions: the defining store term (asserted equal where the name is used)
}

var termCounter int

var internTab = map[string]*Term{}

func internKey(k TKind, op string, s *Sort, args []*Term) string {
	var b strings.Builder
	b.WriteString(strconv.Itoa(int(k)))
	b.WriteByte('|')
	b.WriteString(op)
	b.WriteByte('|')
	b.WriteString(s.String())
	for _, a := range args {
		b.WriteByte(',')
		b.WriteString(strconv.Itoa(a.id))
	}
	return b.String()
}

func newTerm(k TKind, op string, s *Sort, args ...*Term) *Term {
	var key string
	if k == TApp || k == TVar {
		key = internKey(k, op, s, args)
		if t, ok := internTab[key]; ok {
			return t
		}
	}
	t := newTerm0(k, op, s, args...)
	if key != "" {
		internTab[key] = t
	}
	return t
}

func newTerm0(k TKind, op string, s *Sort, args ...*Term) *Term {
	termCounter++
	t := &Term{K: k, Op: op, S: s, Args: args, id: termCounter}
	if k == TBound {
		t.hasBound = true
	}
	for _, a := range args {
		if a.hasBound {
			t.hasBound = true
		}
	}
	return t
}

var (
	True  = &Term{K: TLit, Op: "true", S: SBool, id: -1}
	False = &Term{K: TLit, Op: "false", S: SBool, id: -2}
)

func BoolLit(b bool) *Term {
	if b {
		return True
	}
	return False
}

func IntLit(n int64) *Term { return IntLitBig(big.NewInt(n)) }

var litTab = map[string]*Term{}

func IntLitBig(n *big.Int) *Term {
	if t, ok := litTab["i"+n.String()]; ok {
		return t
	}
	t := newTerm(TLit, "", SInt)
	litTab["i"+n.String()] = t
	t.rat = new(big.Rat).SetInt(n)
	if n.Sign() < 0 {
		t.Op = "(- " + new(big.Int).Neg(n).String() + ")"
	} else {
		t.Op = n.String()
	}
	return t
}

func RealLit(r *big.Rat) *Term {
	if t, ok := litTab["r"+r.String()]; ok {
		return t
	}
	t := newTerm(TLit, "", SReal)
	litTab["r"+r.String()] = t
	t.rat = new(big.Rat).Set(r)
	num := new(big.Int).Set(r.Num())
	neg := num.Sign() < 0
	if neg {
		num.Neg(num)
	}
	var s string
	if r.IsInt() {
		s = num.String() + ".0"
	} else {
		s = "(/ " + num.String() + ".0 " + r.Denom().String() + ".0)"
	}
	if neg {
		s = "(- " + s + ")"
	}
	t.Op = s
	return t
}

func RealLitF(f float64) *Term {
	r := new(big.Rat)
	r.SetFloat64(f)
	return RealLit(r)
}

func Var(name string, s *Sort) *Term { return newTerm(TVar, name, s) }

func BoundVar(name string, s *Sort) *Term { return newTerm(TBound, name, s) }

func isLit(t *Term, op string) bool { return t.K == TLit && t.Op == op }

func App(op string, s *Sort, args ...*Term) *Term { return newTerm(TApp, op, s, args...) }

// ---- smart constructors ----

func Not(a *Term) *Term {
	if a == True {
		return False
	}
	if a == False {
		return True
	}
	if a.K == TApp && a.Op == "not" {
		return a.Args[0]
	}
	return App("not", SBool, a)
}

func And(as ...*Term) *Term {
	var out []*Term
	for _, a := range as {
		if a == True {
			continue
		}
		if a == False {
			return False
		}
		if a.K == TApp && a.Op == "and" {
			out = append(out, a.Args...)
			continue
		}
		out = append(out, a)
	}
	if len(out) == 0 {
		return True
	}
	out = dedupTerms(out)
	for _, a := range out {
		if a.K == TApp && a.Op == "not" {
			for _, b := range out {
				if b == a.Args[0] {
					return False
				}
			}
		}
	}
	if len(out) == 1 {
		return out[0]
	}
	return App("and", SBool, out...)
}

func Or(as ...*Term) *Term {
	var out []*Term
	for _, a := range as {
		if a == False {
			continue
		}
		if a == True {
			return True
		}
		if a.K == TApp && a.Op == "or" {
			out = append(out, a.Args...)
			continue
		}
		out = append(out, a)
	}
	if len(out) == 0 {
		return False
	}
	out = dedupTerms(out)
	for _, a := range out {
		if a.K == TApp && a.Op == "not" {
			for _, b := range out {
				if b == a.Args[0] {
					return True
				}
			}
		}
	}
	if len(out) == 1 {
		return out[0]
	}
	return App("or", SBool, out...)
}

func dedupTerms(ts []*Term) []*Term {
	seen := map[*Term]bool{}
	var out []*Term
	for _, t := range ts {
		if !seen[t] {
			seen[t] = true
			out = append(out, t)
		}
	}
	return out
}

func Implies(a, b *Term) *Term {
	if a == b {
		return True
	}
	if a == True {
		return b
	}
	if a == False || b == True {
		return True
	}
	return App("=>", SBool, a, b)
}

func sameTerm(a, b *Term) bool {
	if a == b {
		return true
	}
	if a.K != b.K || a.Op != b.Op || len(a.Args) != len(b.Args) || a.S != b.S {
		return false
	}
	if a.K == TQuant || a.K == TBound {
		return false
	}
	if a.K == TVar {
		return true
	}
	for i := range a.Args {
		if !sameTerm(a.Args[i], b.Args[i]) {
			return false
		}
	}
	return true
}

func Ite(c, a, b *Term) *Term {
	if c == True {
		return a
	}
	if c == False {
		return b
	}
	if a == b {
		return a
	}
	if a.S != b.S {
		panic(fmt.Sprintf("ite sort mismatch %s vs %s", a.S, b.S))
	}
	if a.S == SBool {
		if a == True && b == False {
			return c
		}
		if a == False && b == True {
			return Not(c)
		}
	}
	// push ite into constructors so that field selection simplifies
	if a.K == TApp && b.K == TApp && a.Op == b.Op && strings.HasPrefix(a.Op, "mk_") && len(a.Args) == len(b.Args) {
		args := make([]*Term, len(a.Args))
		for i := range a.Args {
			args[i] = Ite(c, a.Args[i], b.Args[i])
		}
		return App(a.Op, a.S, args...)
	}
	if sameTerm(a, b) {
		return a
	}
	return App("ite", a.S, c, a, b)
}

func Eq(a, b *Term) *Term {
	a, b = coerce(a, b)
	if a.S != b.S {
		panic(fmt.Sprintf("eq sort mismatch %s vs %s: %s / %s", a.S, b.S, a.Op, b.Op))
	}
	if a == b {
		return True
	}
	if a.rat != nil && b.rat != nil {
		return BoolLit(a.rat.Cmp(b.rat) == 0)
	}
	if a.K == TApp && b.K == TApp && a.Op == b.Op && a.S.Kind == KDT && a.Op == "mk_"+a.S.Name {
		cs := make([]*Term, len(a.Args))
		for i := range a.Args {
			cs[i] = Eq(a.Args[i], b.Args[i])
		}
		return And(cs...)
	}
	if a.S == SBool {
		if b == True {
			return a
		}
		if b == False {
			return Not(a)
		}
		if a == True {
			return b
		}
		if a == False {
			return Not(b)
		}
	}
	return App("=", SBool, a, b)
}

// coerce Int literal/term to Real if the other side is Real
func coerce(a, b *Term) (*Term, *Term) {
	if a.S == SReal && b.S == SInt {
		return a, ToReal(b)
	}
	if a.S == SInt && b.S == SReal {
		return ToReal(a), b
	}
	return a, b
}

func ToReal(a *Term) *Term {
	if a.S == SReal {
		return a
	}
	if a.rat != nil {
		return RealLit(a.rat)
	}
	return App("to_real", SReal, a)
}

func Arith(op string, a, b *Term) *Term {
	a, b = coerce(a, b)
	s := a.S
	if a.rat != nil && b.rat != nil {
		r := new(big.Rat)
		switch op {
		case "+":
			r.Add(a.rat, b.rat)
		case "-":
			r.Sub(a.rat, b.rat)
		case "*":
			r.Mul(a.rat, b.rat)
		case "/":
			if b.rat.Sign() == 0 || s != SReal {
				goto nofold
			}
			r.Quo(a.rat, b.rat)
		default:
			goto nofold
		}
		if s == SReal {
			return RealLit(r)
		}
		if r.IsInt() {
			return IntLitBig(r.Num())
		}
	}
nofold:
	// identities
	switch op {
	case "+":
		if a.rat != nil && a.rat.Sign() == 0 {
			return b
		}
		if b.rat != nil && b.rat.Sign() == 0 {
			return a
		}
	case "-":
		if b.rat != nil && b.rat.Sign() == 0 {
			return a
		}
	case "*":
		if a.rat != nil && a.rat.Sign() == 0 {
			return a
		}
		if b.rat != nil && b.rat.Sign() == 0 {
			return b
		}
		if a.rat != nil && a.rat.Cmp(big.NewRat(1, 1)) == 0 {
			return b
		}
		if b.rat != nil && b.rat.Cmp(big.NewRat(1, 1)) == 0 {
			return a
		}
	case "/":
		if b.rat != nil && b.rat.Cmp(big.NewRat(1, 1)) == 0 {
			return a
		}
	}
	return App(op, s, a, b)
}

func Neg(a *Term) *Term {
	if a.rat != nil {
		r := new(big.Rat).Neg(a.rat)
		if a.S == SReal {
			return RealLit(r)
		}
		return IntLitBig(r.Num())
	}
	return App("-", a.S, a)
}

func Cmp(op string, a, b *Term) *Term {
	a, b = coerce(a, b)
	if a.rat != nil && b.rat != nil {
		c := a.rat.Cmp(b.rat)
		switch op {
		case "<":
			return BoolLit(c < 0)
		case "<=":
			return BoolLit(c <= 0)
		case ">":
			return BoolLit(c > 0)
		case ">=":
			return BoolLit(c >= 0)
		}
	}
	return App(op, SBool, a, b)
}

func Select(arr, idx *Term) *Term {
	if arr.S.Kind != KArray {
		panic("select on non-array " + arr.S.String())
	}
	// select(store(a,i,v), j): resolve when indices are syntactically equal or distinct literals,
	// otherwise expand to ite(i = j, v, select(a, j)) (read-over-write), also through named versions
	depth := 0
	for {
		if arr.K == TVar && arr.def != nil {
			arr = arr.def
			continue
		}
		if !(arr.K == TApp && arr.Op == "store") {
			break
		}
		i := arr.Args[1]
		if sameTerm(i, idx) {
			return arr.Args[2]
		}
		if i.rat != nil && idx.rat != nil && i.rat.Cmp(idx.rat) != 0 {
			arr = arr.Args[0]
			continue
		}
		if depth < 12 && arr.S.Elem.Kind != KArray {
			depth++
			return Ite(Eq(i, idx), arr.Args[2], Select(arr.Args[0], idx))
		}
		break
	}
	if arr.K == TApp && arr.Op == "ite" {
		// keep as is
	}
	return App("select", arr.S.Elem, arr, idx)
}

func Store(arr, idx, v *Term) *Term {
	if arr.S.Kind != KArray {
		panic("store on non-array")
	}
	if v.S != arr.S.Elem {
		if arr.S.Elem == SReal && v.S == SInt {
			v = ToReal(v)
		} else {
			panic(fmt.Sprintf("store sort mismatch: array %s value %s", arr.S, v.S))
		}
	}
	return App("store", arr.S, arr, idx, v)
}

// Field selects DT field i
func Field(t *Term, i int) *Term {
	if t.S.Kind != KDT {
		panic("field on non-DT " + t.S.String())
	}
	f := t.S.Fields[i]
	if t.K == TApp && t.Op == "mk_"+t.S.Name {
		return t.Args[i]
	}
	if t.K == TApp && t.Op == "ite" {
		return Ite(t.Args[0], Field(t.Args[1], i), Field(t.Args[2], i))
	}
	return App(f.Name, f.S, t)
}

func Mk(s *Sort, args ...*Term) *Term {
	if len(args) != len(s.Fields) {
		panic("mk arity " + s.Name)
	}
	for i, a := range args {
		if a.S != s.Fields[i].S {
			if s.Fields[i].S == SReal && a.S == SInt {
				args[i] = ToReal(a)
			} else {
				panic(fmt.Sprintf("mk %s field %d: want %s got %s", s.Name, i, s.Fields[i].S, a.S))
			}
		}
	}
	// mk(f0(x), f1(x), ...) == x
	if len(args) > 0 {
		var base *Term
		ok := true
		for i, a := range args {
			if a.K == TApp && a.Op == s.Fields[i].Name && len(a.Args) == 1 && (base == nil || base == a.Args[0]) {
				base = a.Args[0]
			} else {
				ok = false
				break
			}
		}
		if ok && base != nil && base.S == s {
			return base
		}
	}
	return App("mk_"+s.Name, s, args...)
}

func WithField(t *Term, i int, v *Term) *Term {
	args := make([]*Term, len(t.S.Fields))
	for j := range args {
		if j == i {
			args[j] = v
		} else {
			args[j] = Field(t, j)
		}
	}
	return Mk(t.S, args...)
}

func Forall(bound []*Term, body *Term, pats ...[]*Term) *Term {
	if body == True {
		return True
	}
	t := newTerm(TQuant, "forall", SBool, body)
	t.Bound = bound
	t.Pats = pats
	t.hasBound = termHasFreeBound(body, bound)
	return t
}

func Exists(bound []*Term, body *Term) *Term {
	if body == False {
		return False
	}
	t := newTerm(TQuant, "exists", SBool, body)
	t.Bound = bound
	t.hasBound = termHasFreeBound(body, bound)
	return t
}

// does body contain bound vars other than those in `bound`?
func termHasFreeBound(body *Term, bound []*Term) bool {
	if !body.hasBound {
		return false
	}
	seen := map[*Term]bool{}
	var rec func(t *Term, bs map[*Term]bool) bool
	rec = func(t *Term, bs map[*Term]bool) bool {
		if !t.hasBound {
			return false
		}
		if t.K == TBound {
			return !bs[t]
		}
		if t.K == TQuant {
			nb := map[*Term]bool{}
			for k := range bs {
				nb[k] = true
			}
			for _, b := range t.Bound {
				nb[b] = true
			}
			return rec(t.Args[0], nb)
		}
		if seen[t] && len(bs) == len(bound) {
			return false
		}
		for _, a := range t.Args {
			if rec(a, bs) {
				return true
			}
		}
		if len(bs) == len(bound) {
			seen[t] = true
		}
		return false
	}
	bs := map[*Term]bool{}
	for _, b := range bound {
		bs[b] = true
	}
	return rec(body, bs)
}

// Substitute replaces variables (TVar or TBound pointers) by terms.
func Substitute(t *Term, m map[*Term]*Term) *Term {
	cache := map[*Term]*Term{}
	var rec func(t *Term) *Term
	rec = func(t *Term) *Term {
		if r, ok := m[t]; ok {
			return r
		}
		if len(t.Args) == 0 {
			return t
		}
		if r, ok := cache[t]; ok {
			return r
		}
		changed := false
		args := make([]*Term, len(t.Args))
		for i, a := range t.Args {
			args[i] = rec(a)
			if args[i] != a {
				changed = true
			}
		}
		r := t
		if changed {
			if t.K == TQuant {
				nt := newTerm(TQuant, t.Op, SBool, args[0])
				nt.Bound = t.Bound
				nt.Pats = t.Pats
				nt.hasBound = termHasFreeBound(args[0], t.Bound)
				r = nt
			} else {
				r = rebuild(t, args)
			}
		}
		cache[t] = r
		return r
	}
	return rec(t)
}

func rebuild(t *Term, args []*Term) *Term {
	switch t.Op {
	case "ite":
		return Ite(args[0], args[1], args[2])
	case "and":
		return And(args...)
	case "or":
		return Or(args...)
	case "not":
		return Not(args[0])
	case "=>":
		return Implies(args[0], args[1])
	case "select":
		return Select(args[0], args[1])
	case "=":
		return Eq(args[0], args[1])
	}
	if t.S.Kind == KDT && t.Op == "mk_"+t.S.Name {
		return Mk(t.S, args...)
	}
	if len(args) == 1 && args[0].S.Kind == KDT {
		for i, f := range args[0].S.Fields {
			if f.Name == t.Op {
				return Field(args[0], i)
			}
		}
	}
	return App(t.Op, t.S, args...)
}

// ---- printing ----

type Printer struct {
	sb       strings.Builder
	dts      map[string]*Sort
	dtOrder  []*Sort
	vars     map[string]*Sort
	varOrder []string
	funcs    map[string]bool // uninterpreted functions used (declared by prelude)
	count    map[*Term]int
	names    map[*Term]string
	defs     []string
	nodes    int
	letCount int
}

func collectSort(p *Printer, s *Sort) {
	switch s.Kind {
	case KDT:
		if _, ok := p.dts[s.Name]; ok {
			return
		}
		p.dts[s.Name] = s
		for _, f := range s.Fields {
			collectSort(p, f.S)
		}
		p.dtOrder = append(p.dtOrder, s)
	case KArray:
		collectSort(p, s.Key)
		collectSort(p, s.Elem)
	}
}

func (p *Printer) scan(t *Term) {
	p.count[t]++
	if p.count[t] > 1 {
		return
	}
	p.nodes++
	collectSort(p, t.S)
	switch t.K {
	case TVar:
		if _, ok := p.vars[t.Op]; !ok {
			p.vars[t.Op] = t.S
			p.varOrder = append(p.varOrder, t.Op)
		}
	case TQuant:
		for _, b := range t.Bound {
			collectSort(p, b.S)
		}
	}
	for _, a := range t.Args {
		p.scan(a)
	}
	for _, ps := range t.Pats {
		for _, q := range ps {
			p.scan(q)
		}
	}
}

func (p *Printer) str(t *Term) string {
	if n, ok := p.names[t]; ok {
		return n
	}
	var s string
	switch t.K {
	case TLit, TVar, TBound:
		return t.Op
	case TQuant:
		var b strings.Builder
		b.WriteString("(" + t.Op + " (")
		for _, v := range t.Bound {
			b.WriteString("(" + v.Op + " " + v.S.String() + ")")
		}
		b.WriteString(") ")
		// let-bind shared subterms that contain bound variables (they cannot be hoisted to define-funs)
		cnt := map[*Term]int{}
		var order []*Term
		var scan func(n *Term)
		scan = func(n *Term) {
			if !n.hasBound || n.K == TBound {
				return
			}
			cnt[n]++
			if cnt[n] > 1 {
				return
			}
			if n.K != TQuant {
				for _, a := range n.Args {
					scan(a)
				}
			}
			order = append(order, n)
		}
		scan(t.Args[0])
		saved := map[*Term]string{}
		var lets []string
		for _, n := range order {
			if cnt[n] > 1 && n.K == TApp && len(n.Args) > 0 && n != t.Args[0] {
				if _, has := p.names[n]; has {
					continue
				}
				txt := p.str(n)
				if len(txt) < 30 {
					continue
				}
				p.letCount++
				name := fmt.Sprintf("?l%d", p.letCount)
				lets = append(lets, "(let (("+name+" "+txt+")) ")
				p.names[n] = name
				saved[n] = name
			}
		}
		body := p.str(t.Args[0])
		body = strings.Join(lets, "") + body + strings.Repeat(")", len(lets))
		// patterns are printed without the let names
		for n := range saved {
			delete(p.names, n)
		}
		if len(t.Pats) > 0 {
			b.WriteString("(! " + body)
			for _, ps := range t.Pats {
				b.WriteString(" :pattern (")
				for i, q := range ps {
					if i > 0 {
						b.WriteString(" ")
					}
					b.WriteString(p.str(q))
				}
				b.WriteString(")")
			}
			b.WriteString(")")
		} else {
			b.WriteString(body)
		}
		b.WriteString(")")
		s = b.String()
	case TApp:
		if len(t.Args) == 0 {
			s = t.Op
		} else {
			var b strings.Builder
			b.WriteString("(" + t.Op)
			for _, a := range t.Args {
				b.WriteString(" ")
				b.WriteString(p.str(a))
			}
			b.WriteString(")")
			s = b.String()
		}
	}
	if !t.hasBound && p.count[t] > 1 && len(s) > 24 {
		name := fmt.Sprintf("$t%d", len(p.defs))
		p.defs = append(p.defs, fmt.Sprintf("(define-fun %s () %s %s)", name, t.S.String(), s))
		p.names[t] = name
		return name
	}
	return s
}

// Query builds the SMT-LIB text: assert all hyps, assert (not goal).
// If goal is nil only hyps are asserted (satisfiability probe).
func BuildQuery(prelude string, hyps []*Term, goal *Term, wantModel bool) (string, int) {
	p := &Printer{dts: map[string]*Sort{}, vars: map[string]*Sort{}, count: map[*Term]int{}, names: map[*Term]string{}}
	for _, h := range hyps {
		p.scan(h)
	}
	if goal != nil {
		p.scan(goal)
	}
	var asserts []string
	for _, h := range hyps {
		asserts = append(asserts, p.str(h))
	}
	var g string
	if goal != nil {
		g = p.str(goal)
	}
	var out strings.Builder
	for _, s := range p.dtOrder {
		out.WriteString("(declare-datatypes ((" + s.Name + " 0)) (((mk_" + s.Name)
		for _, f := range s.Fields {
			out.WriteString(" (" + f.Name + " " + f.S.String() + ")")
		}
		out.WriteString("))))\n")
	}
	out.WriteString(prelude)
	names := append([]string(nil), p.varOrder...)
	sort.Strings(names)
	for _, n := range names {
		if preludeDeclared[n] {
			continue
		}
		out.WriteString("(declare-fun " + n + " () " + p.vars[n].String() + ")\n")
	}
	for _, d := range p.defs {
		out.WriteString(d + "\n")
	}
	for _, a := range asserts {
		out.WriteString("(assert " + a + ")\n")
	}
	if goal != nil {
		out.WriteString("(assert (not " + g + "))\n")
	}
	out.WriteString("(check-sat)\n")
	if wantModel {
		out.WriteString("(get-model)\n")
	}
	return out.String(), p.nodes
}

// symbols declared by the prelude (uninterpreted math functions etc.)
var preludeDeclared = map[string]bool{}

// IntDivMod builds SMT div/mod with constant folding (divisor > 0 literal)
func IntDivMod(op string, a, b *Term) *Term {
	if a.rat != nil && b.rat != nil && b.rat.Sign() > 0 && a.rat.IsInt() && b.rat.IsInt() {
		q, m := new(big.Int), new(big.Int)
		q.DivMod(a.rat.Num(), b.rat.Num(), m)
		if op == "div" {
			return IntLitBig(q)
		}
		return IntLitBig(m)
	}
	return App(op, SInt, a, b)
}
