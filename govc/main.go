package main

import (
	"encoding/json"
	"flag"
	"fmt"
	"os"
	"path/filepath"
	"regexp"
	"sort"
	"strings"
	"time"
)

func main() {
	if len(os.Args) < 2 {
		fmt.Fprintln(os.Stderr, "usage: govc verify|list ...")
		os.Exit(2)
	}
	switch os.Args[1] {
	case "verify":
		cmdVerify(os.Args[2:])
	case "check":
		cmdCheck(os.Args[2:])
	default:
		fmt.Fprintln(os.Stderr, "unknown command")
		os.Exit(2)
	}
}

var allPatterns = []string{".", "./text", "./renderers/pdf", "./renderers/svg", "./renderers/ps", "./renderers/rasterizer"}

type OblReport struct {
	Name   string   `json:"name"`
	Kind   string   `json:"kind"`
	Func   string   `json:"func"`
	Pos    string   `json:"pos"`
	Text   string   `json:"text,omitempty"`
	Status string   `json:"status"`
	Solver string   `json:"solver,omitempty"`
	Ms     int64    `json:"ms"`
	Props  []string `json:"props,omitempty"`
	Raw    string   `json:"raw,omitempty"`
	Query  string   `json:"query,omitempty"`
	Model  string   `json:"model,omitempty"`
}

type FuncReport struct {
	Key        string   `json:"key"`
	Props      []string `json:"props"`
	Trusted    string   `json:"trusted,omitempty"`
	Paths      int      `json:"paths"`
	Notes      []string `json:"notes,omitempty"`
	Abstracted []string `json:"abstracted,omitempty"`
	Used       []string `json:"used_contracts,omitempty"`
	Err        string   `json:"error,omitempty"`
	File       string   `json:"file"`
}

type Report struct {
	Repo        string            `json:"repo"`
	Funcs       []*FuncReport     `json:"funcs"`
	Obls        []*OblReport      `json:"obligations"`
	Trusted     map[string]string `json:"trusted_contracts"`
	Library     map[string]string `json:"library_models"`
	AssumeSites []string          `json:"assume_sites"`
	Axioms      []string          `json:"axioms"`
	Missing     []string          `json:"missing_targets"`
	LoadErr     string            `json:"load_error,omitempty"`
	WallS       float64           `json:"wall_s"`
	SolverS     float64           `json:"solver_s"`
}

func cmdVerify(args []string) {
	fs := flag.NewFlagSet("verify", flag.ExitOnError)
	repo := fs.String("repo", "/repo", "repository root")
	prop := fs.String("prop", "", "only functions tagged with this property")
	fnre := fs.String("func", "", "regexp on function key")
	out := fs.String("out", "", "report JSON path")
	timeout := fs.Int("timeout", 10, "solver timeout (s)")
	workers := fs.Int("workers", 12, "parallel obligations")
	keep := fs.Bool("keep", false, "keep query files")
	tmp := fs.String("tmp", "", "scratch dir for queries")
	verbose := fs.Bool("v", false, "verbose")
	fs.Parse(args)
	if os.Getenv("GOVC_TIER") == "thorough" {
		thoroughTier = true
	}
	start := time.Now()
	eng, err := loadEngine(*repo, allPatterns)
	rep := &Report{Repo: *repo, Trusted: map[string]string{}, Library: map[string]string{}}
	if err != nil {
		rep.LoadErr = err.Error()
		fmt.Fprintln(os.Stderr, "load:", err)
		writeReport(*out, rep)
		os.Exit(3)
	}
	var re *regexp.Regexp
	if *fnre != "" {
		re = regexp.MustCompile(*fnre)
	}
	dir := *tmp
	if dir == "" {
		dir, _ = os.MkdirTemp("/var/tmp", "govc.q.")
		if !*keep {
			defer os.RemoveAll(dir)
		}
	} else {
		os.MkdirAll(dir, 0o755)
	}
	var obls []*Obligation
	for _, ct := range eng.ctList {
		if *prop != "" && !hasProp(ct.Props, *prop) {
			continue
		}
		if re != nil && !re.MatchString(ct.Key) {
			continue
		}
		if ct.Missing {
			rep.Missing = append(rep.Missing, ct.Pkg.Types.Name()+"."+ct.Key+" ("+ct.Line+")")
			continue
		}
		if ct.Fn.Decl.Body == nil {
			continue
		}
		fr := eng.verifyFunc(ct)
		frp := &FuncReport{Key: fr.Key, Props: ct.Props, Trusted: ct.Trusted, Paths: fr.Paths, Notes: fr.Notes, Abstracted: fr.Abstracted, Used: fr.Used, Err: fr.Err, File: relPath(ct.Fn.File)}
		rep.Funcs = append(rep.Funcs, frp)
		for _, o := range fr.Obls {
			o.Name = ct.Pkg.Types.Name() + "." + o.Name
			if reason, ok := unclaimedReason(ct, o.Name, o.Text); ok {
				o.Text = "[unclaimed: " + reason + "] " + o.Text
				o.Kind = "unclaimed:" + o.Kind
			}
		}
		obls = append(obls, fr.Obls...)
	}
	t0 := time.Now()
	solveAll(obls, dir, *timeout, *workers, *keep)
	rep.SolverS = time.Since(t0).Seconds()
	for _, o := range obls {
		r := o.Result
		or := &OblReport{Name: o.Name, Kind: o.Kind, Func: o.Func, Pos: o.Pos, Text: o.Text, Status: r.Status, Solver: r.Solver, Ms: r.Ms, Props: o.Props}
		if r.Status != "proved" && r.Status != "nonvacuous" {
			or.Raw = r.Raw
			or.Query = r.Query
			or.Model = r.Model
			if len(or.Model) > 20000 {
				or.Model = or.Model[:20000]
			}
		}
		rep.Obls = append(rep.Obls, or)
		if *verbose || (r.Status != "proved" && r.Status != "nonvacuous") {
			fmt.Printf("%-10s %-60s %6dms %s  %s\n", r.Status, o.Name, r.Ms, r.Solver, o.Pos)
		}
	}
	for k, v := range eng.usedTrusted {
		rep.Trusted[k] = v
	}
	for k, v := range libUsed {
		rep.Library[k] = v
	}
	rep.AssumeSites = eng.assumeSites
	for _, p := range eng.pkgs {
		for _, a := range eng.axioms[p.PkgPath] {
			rep.Axioms = append(rep.Axioms, a.Text)
		}
	}
	rep.WallS = time.Since(start).Seconds()
	writeReport(*out, rep)
	nfail := 0
	counts := map[string]int{}
	for _, o := range rep.Obls {
		counts[o.Status]++
		if o.Status != "proved" && o.Status != "nonvacuous" {
			nfail++
		}
	}
	var ks []string
	for k := range counts {
		ks = append(ks, k)
	}
	sort.Strings(ks)
	var parts []string
	for _, k := range ks {
		parts = append(parts, fmt.Sprintf("%s=%d", k, counts[k]))
	}
	fmt.Printf("govc: %d functions, %d obligations (%s), %.1fs\n", len(rep.Funcs), len(rep.Obls), strings.Join(parts, " "), rep.WallS)
	for _, f := range rep.Funcs {
		if f.Err != "" {
			fmt.Printf("ERROR %s: %s\n", f.Key, f.Err)
		}
	}
}

// unclaimedReason: `unclaimed <suffix> <reason>` matches obligation names (".../index#2", ".../slice#" = every slice
// obligation); `unclaimed <kind>@<text> <reason>` matches obligations of that kind whose expression text contains
// <text> (robust against renumbering when unrelated code is added).
func unclaimedReason(ct *Contract, name string, text ...string) (string, bool) {
	for suf, reason := range ct.Unclaimed {
		if strings.HasSuffix(suf, "@") {
			// `unclaimed index@ <reason>`: the safety obligations of that kind inside inlined callees (".../index@Callee#3")
			if strings.Contains(name, "/"+suf) {
				return reason, true
			}
			continue
		}
		if i := strings.Index(suf, "@"); i > 0 {
			kind, want := suf[:i], suf[i+1:]
			if strings.Contains(name, "/"+kind+"#") && len(text) > 0 && strings.Contains(strings.ReplaceAll(text[0], " ", ""), want) {
				return reason, true
			}
			continue
		}
		if strings.HasSuffix(name, "/"+suf) || strings.Contains(name, "/"+suf) {
			return reason, true
		}
	}
	return "", false
}

func relPath(p string) string {
	if i := strings.Index(p, "/repo/"); i >= 0 {
		return p[i+6:]
	}
	return filepath.Base(p)
}

func hasProp(ps []string, p string) bool {
	for _, q := range ps {
		if q == p {
			return true
		}
	}
	return false
}

func writeReport(path string, rep *Report) {
	if path == "" {
		return
	}
	b, _ := json.MarshalIndent(rep, "", " ")
	os.WriteFile(path, b, 0o644)
}
