package main

// Frame obligations: a function with an assigns clause leaves every pre-existing heap location outside that
// clause unchanged (objects and slice blocks allocated by the call itself are exempt).

import (
	"fmt"
	"go/ast"
	"go/types"
	"sort"
	"strings"
)

type frameExcl struct {
	heap string
	ref  *Term // for field heaps: the excluded object
	// for memories: block and cell range
	blk, lo, hi *Term
	all         bool
}

func (x *Exec) frameExclusions(entry *State, ct *Contract, env map[types.Object]*Term) ([]frameExcl, bool) {
	var out []frameExcl
	fi := ct.Fn
	s := entry.clone()
	saved := s.env
	s.env = env
	x.clauseInfo = append(x.clauseInfo, ct.AssignsI)
	x.frames = append(x.frames, &Frame{fi: fi, info: fi.Pkg.TypesInfo, inlined: true})
	x.dry++
	defer func() {
		x.dry--
		x.frames = x.frames[:len(x.frames)-1]
		x.clauseInfo = x.clauseInfo[:len(x.clauseInfo)-1]
		s.env = saved
	}()
	for i, a := range ct.Assigns {
		if a == "*" {
			return nil, true
		}
		switch n := ct.AssignsE[i].(type) {
		case *ast.CallExpr:
			if len(n.Args) == 1 {
				if st, ok := x.typeOf(n.Args[0]).Underlying().(*types.Slice); ok {
					sv := x.eval(s, n.Args[0])
					out = append(out, frameExcl{heap: memName(x.eng.tm.sortOf(st.Elem())), blk: Field(sv, 0), lo: Field(sv, 1), hi: Arith("+", Field(sv, 1), Field(sv, 3))})
					continue
				}
			}
			return nil, true
		case *ast.SelectorExpr:
			sel := x.selection(n)
			bt := x.typeOf(n.X)
			if sel != nil && bt != nil && isPointer(bt) && len(sel.Index()) == 1 {
				si := x.eng.tm.structOf(elemOfPointer(bt))
				out = append(out, frameExcl{heap: fieldHeapName(si, sel.Index()[0]), ref: x.eval(s, n.X)})
				continue
			}
			return nil, true
		case *ast.StarExpr:
			bt := x.typeOf(n.X)
			if bt != nil && isPointer(bt) && isStruct(elemOfPointer(bt)) {
				si := x.eng.tm.structOf(elemOfPointer(bt))
				ref := x.eval(s, n.X)
				for k := range si.fields {
					out = append(out, frameExcl{heap: fieldHeapName(si, k), ref: ref})
				}
				continue
			}
			if bt != nil && isPointer(bt) {
				out = append(out, frameExcl{heap: "H_" + shortTypeName(elemOfPointer(bt)) + "_val", ref: x.eval(s, n.X)})
				continue
			}
			return nil, true
		case *ast.Ident:
			if v, ok := x.objOf(n).(*types.Var); ok && x.isGlobal(v) {
				out = append(out, frameExcl{heap: x.globalName(v), all: true})
				continue
			}
			return nil, true
		default:
			return nil, true
		}
	}
	return out, false
}

// frameGoal: heap array `name` with final version f agrees with the entry version e on every location that
// existed at function entry and is not excluded by the assigns clause. nil when nothing is to be shown.
func (x *Exec) frameGoal(name string, f, e *Term, excl []frameExcl, alloc0, balloc0 *Term) *Term {
	if e == f {
		return nil
	}
	switch {
	case strings.HasPrefix(name, "G_"):
		for _, ex := range excl {
			if ex.heap == name {
				return nil
			}
		}
		return Eq(f, e)
	case strings.HasPrefix(name, "Mem_"):
		b := BoundVar(sanitizeSym(x.freshName("fb")), SInt)
		j := BoundVar(sanitizeSym(x.freshName("fj")), SInt)
		cond := And(Cmp("<", IntLit(0), b), Cmp("<", b, balloc0))
		for _, ex := range excl {
			if ex.heap == name {
				cond = And(cond, Not(And(Eq(b, ex.blk), Cmp("<=", ex.lo, j), Cmp("<", j, ex.hi))))
			}
		}
		return Forall([]*Term{b, j}, Implies(cond, Eq(Select(Select(f, b), j), Select(Select(e, b), j))))
	case strings.HasPrefix(name, "MapV_") || strings.HasPrefix(name, "MapD_"):
		r := BoundVar(sanitizeSym(x.freshName("fr")), SInt)
		cond := And(Cmp("<", IntLit(0), r), Cmp("<", r, alloc0))
		return Forall([]*Term{r}, Implies(cond, Eq(Select(f, r), Select(e, r))))
	default:
		if f.S.Kind != KArray || f.S.Key != SInt {
			return nil
		}
		r := BoundVar(sanitizeSym(x.freshName("fr")), SInt)
		cond := And(Cmp("<", IntLit(0), r), Cmp("<", r, alloc0))
		for _, ex := range excl {
			if ex.heap == name {
				cond = And(cond, Not(Eq(r, ex.ref)))
			}
		}
		return Forall([]*Term{r}, Implies(cond, Eq(Select(f, r), Select(e, r))))
	}
}

type frameCtx struct {
	excl            []frameExcl
	alloc0, balloc0 *Term
	entry           *State
	ok              bool
}

func (x *Exec) frameContext() *frameCtx {
	if x.frameC != nil {
		return x.frameC
	}
	f0 := x.frames[0]
	fc := &frameCtx{}
	x.frameC = fc
	if f0.contract == nil || !f0.contract.HasAssign || f0.entry == nil {
		return fc
	}
	env := map[types.Object]*Term{}
	for _, po := range f0.paramObjs {
		env[po] = f0.entry.env[po]
	}
	excl, everything := x.frameExclusions(f0.entry, f0.contract, env)
	if everything {
		return fc
	}
	fc.excl = excl
	fc.entry = f0.entry
	fc.alloc0 = x.heapGet(f0.entry, "$alloc", SInt)
	fc.balloc0 = x.heapGet(f0.entry, "$balloc", SInt)
	fc.ok = true
	return fc
}

// entryVersion of a heap array (the symbol it had at function entry)
func (x *Exec) entryVersion(fc *frameCtx, name string, sort *Sort) *Term {
	if e, ok := fc.entry.heap[name]; ok {
		return e
	}
	return x.heapInit(name, sort)
}

func (x *Exec) checkFrame(fin, entry *State, ct *Contract, env map[types.Object]*Term, ri, nret int) {
	fc := x.frameContext()
	if !fc.ok {
		return
	}
	var names []string
	for k := range fin.heap {
		names = append(names, k)
	}
	sort.Strings(names)
	for _, name := range names {
		if name == "$alloc" || name == "$balloc" {
			continue
		}
		f := fin.heap[name]
		goal := x.frameGoal(name, f, x.entryVersion(fc, name, f.S), fc.excl, fc.alloc0, fc.balloc0)
		if goal == nil {
			continue
		}
		nm := fmt.Sprintf("%s/assigns:%s", x.top.Key, name)
		if nret > 1 {
			nm = fmt.Sprintf("%s/assigns:%s.ret%d", x.top.Key, name, ri+1)
		}
		x.obligeNamed(fin, nm, "assigns", goal, ct.Line, "assigns "+strings.Join(ct.Assigns, ", ")+" (everything else unchanged: "+name+")")
	}
}

// loop frame: the function's frame condition is an implicit invariant of each of its loops
func (x *Exec) loopFrameNames(ws *writeSet, s *State) []string {
	var names []string
	if ws.heap {
		for k := range heapSorts {
			names = append(names, k)
		}
	} else {
		seen := map[string]bool{}
		for k := range ws.names {
			names = append(names, k)
			seen[k] = true
		}
		for _, b := range ws.blocks {
			if !seen[b.mem] {
				seen[b.mem] = true
				names = append(names, b.mem)
			}
		}
	}
	sort.Strings(names)
	var out []string
	for _, k := range names {
		if k == "$alloc" || k == "$balloc" || strings.HasPrefix(k, "G_") {
			continue
		}
		out = append(out, k)
	}
	return out
}

func (x *Exec) loopFrameAssume(s *State, names []string) {
	fc := x.frameContext()
	if !fc.ok || len(x.frames) != 1 {
		return
	}
	for _, name := range names {
		f, ok := s.heap[name]
		if !ok {
			continue
		}
		if g := x.frameGoal(name, f, x.entryVersion(fc, name, f.S), fc.excl, fc.alloc0, fc.balloc0); g != nil {
			s.assume(g)
		}
	}
}

func (x *Exec) loopFrameOblige(s *State, names []string, ord int, what string, pos string) {
	fc := x.frameContext()
	if !fc.ok || len(x.frames) != 1 || s == nil || s.dead {
		return
	}
	for _, name := range names {
		f, ok := s.heap[name]
		if !ok {
			continue
		}
		if g := x.frameGoal(name, f, x.entryVersion(fc, name, f.S), fc.excl, fc.alloc0, fc.balloc0); g != nil {
			x.obligeNamed(s, fmt.Sprintf("%s/loop%d.frame:%s.%s", x.top.Key, ord, name, what), "assigns", g, pos, "loop keeps the function's frame condition for "+name)
		}
	}
}
