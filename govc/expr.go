package main

// Expression evaluation.

import (
	"fmt"
	"go/ast"
	"go/constant"
	"go/token"
	"go/types"
	"math"
	"math/big"
)

var PI = Var("PI", SReal)

// realDiv: division by a non-literal is an uninterpreted quotient q with b != 0 => q*b = a
// (helps the nonlinear solvers; x/0 is unspecified in SMT-LIB as well)
func (x *Exec) realDiv(s *State, a, b *Term) *Term {
	a, b = ToReal(a), ToReal(b)
	if b.rat != nil {
		if b.rat.Sign() == 0 {
			return x.uf("rdiv", SReal, a, b)
		}
		if a.rat != nil {
			return RealLit(new(big.Rat).Quo(a.rat, b.rat))
		}
		return Arith("*", RealLit(new(big.Rat).Inv(b.rat)), a)
	}
	inv := x.uf("rinv", SReal, b)
	s.assume(Implies(Not(Eq(b, RealLitF(0))), Eq(Arith("*", inv, b), RealLitF(1))))
	return Arith("*", a, inv)
}

func (x *Exec) isGlobal(v *types.Var) bool {
	return v.Pkg() != nil && v.Parent() == v.Pkg().Scope()
}

func (x *Exec) globalName(v *types.Var) string {
	return "G_" + v.Pkg().Name() + "_" + v.Name()
}

func (x *Exec) constTerm(val constant.Value, t types.Type) *Term {
	switch val.Kind() {
	case constant.Bool:
		return BoolLit(constant.BoolVal(val))
	case constant.String:
		return x.strLit(constant.StringVal(val))
	case constant.Int:
		if t != nil && isFloat(t) {
			r, _ := new(big.Rat).SetString(val.ExactString())
			return RealLit(r)
		}
		bi, ok := new(big.Int).SetString(val.ExactString(), 10)
		if !ok {
			return IntLit(0)
		}
		return IntLitBig(bi)
	case constant.Float:
		isInt := t != nil && isInteger(t)
		f, _ := constant.Float64Val(val)
		if isInt {
			return IntLit(int64(f))
		}
		// multiples of Pi are kept symbolic
		if f != 0 && !math.IsInf(f, 0) {
			k := f / math.Pi * 360
			rk := math.Round(k)
			if rk != 0 && math.Abs(k-rk) < 1e-9 && math.Abs(rk) <= 360*16 {
				return Arith("*", RealLit(big.NewRat(int64(rk), 360)), PI)
			}
		}
		r, ok := new(big.Rat).SetString(val.ExactString())
		if !ok || len(r.Denom().String()) > 40 {
			r = new(big.Rat)
			r.SetFloat64(f)
		}
		return RealLit(r)
	}
	return IntLit(0)
}

// evalCond evaluates a boolean expression
func (x *Exec) evalCond(s *State, e ast.Expr) *Term {
	t := x.eval(s, e)
	if t.S != SBool {
		x.note("%s: condition of sort %s", x.pos(e.Pos()), t.S)
		return x.freshVar("cond", SBool)
	}
	return t
}

func (x *Exec) evalMulti(s *State, e ast.Expr) []*Term {
	switch n := e.(type) {
	case *ast.ParenExpr:
		return x.evalMulti(s, n.X)
	case *ast.CallExpr:
		return x.callMulti(s, n)
	case *ast.TypeAssertExpr:
		// v, ok := x.(T)
		v := x.eval(s, n.X)
		t := x.typeOf(n.Type)
		if isInterface(t) {
			x.abstract("comma-ok assertion to interface")
			return []*Term{v, x.freshVar("ok", SBool)}
		}
		ok := Eq(Field(v, 0), IntLit(int64(x.eng.tm.tagOf(t))))
		return []*Term{Ite(ok, x.unbox(s, v, t), x.zero(t)), ok}
	case *ast.IndexExpr:
		// v, ok := m[k]
		bt := x.typeOf(n.X)
		if isMap(bt) {
			m := x.eval(s, n.X)
			k := x.eval(s, n.Index)
			has := x.mapHas(s, bt, m, k)
			mt := bt.Underlying().(*types.Map)
			return []*Term{Ite(has, x.mapLoad(s, bt, m, k), x.zero(mt.Elem())), has}
		}
	}
	return []*Term{x.eval(s, e)}
}

func (x *Exec) eval(s *State, e ast.Expr) *Term {
	if tv, ok := x.tv(e); ok && tv.Value != nil {
		return x.constTerm(tv.Value, tv.Type)
	}
	switch n := e.(type) {
	case *ast.ParenExpr:
		return x.eval(s, n.X)
	case *ast.BasicLit:
		// untyped literal without recorded value (should not happen)
		return IntLit(0)
	case *ast.Ident:
		return x.evalIdent(s, n)
	case *ast.BinaryExpr:
		return x.evalBinary(s, n)
	case *ast.UnaryExpr:
		return x.evalUnary(s, n)
	case *ast.CallExpr:
		vs := x.callMulti(s, n)
		if len(vs) == 0 {
			return IntLit(0)
		}
		return vs[0]
	case *ast.SelectorExpr:
		return x.evalSelector(s, n)
	case *ast.IndexExpr:
		return x.evalIndex(s, n)
	case *ast.SliceExpr:
		return x.evalSlice(s, n)
	case *ast.StarExpr:
		ref := x.eval(s, n.X)
		x.oblige(s, "nil", Not(Eq(ref, IntLit(0))), n.Pos(), exprString(n))
		return x.loadDeref(s, ref, elemOfPointer(x.typeOf(n.X)), n.Pos())
	case *ast.CompositeLit:
		return x.evalComposite(s, n, x.typeOf(n))
	case *ast.FuncLit:
		x.abstract("function literal value")
		return IntLit(0)
	case *ast.TypeAssertExpr:
		v := x.eval(s, n.X)
		t := x.typeOf(n.Type)
		if isInterface(t) {
			x.abstract("assertion to interface")
			return v
		}
		if isPoolGet(x, n.X) {
			s.assume(Eq(Field(v, 0), IntLit(int64(x.eng.tm.tagOf(t)))))
			return x.unbox(s, v, t)
		}
		x.oblige(s, "typeassert", Eq(Field(v, 0), IntLit(int64(x.eng.tm.tagOf(t)))), n.Pos(), exprString(n))
		return x.unbox(s, v, t)
	case *ast.KeyValueExpr:
		return x.eval(s, n.Value)
	}
	x.abstract(fmt.Sprintf("expr %T", e))
	if t := x.typeOf(e); t != nil {
		return x.havocValue(s, "expr", t)
	}
	return IntLit(0)
}

func (x *Exec) evalIdent(s *State, n *ast.Ident) *Term {
	obj := x.objOf(n)
	switch o := obj.(type) {
	case *types.Var:
		if v, ok := s.env[o]; ok {
			return v
		}
		if x.isGlobal(o) {
			name := x.globalName(o)
			return x.heapGet(s, name, x.eng.tm.sortOf(o.Type()))
		}
		// captured or otherwise unknown variable
		v := x.havocValue(s, o.Name(), o.Type())
		s.env[o] = v
		return v
	case *types.Nil:
		t := x.typeOf(n)
		if t != nil {
			return x.zero(t)
		}
		return IntLit(0)
	case *types.Const:
		return x.constTerm(o.Val(), o.Type())
	case *types.Func:
		x.abstract("function value")
		return IntLit(0)
	}
	if n.Name == "nil" {
		if t := x.typeOf(n); t != nil {
			return x.zero(t)
		}
		return IntLit(0)
	}
	x.note("%s: unresolved identifier %s", x.pos(n.Pos()), n.Name)
	if t := x.typeOf(n); t != nil {
		return x.havocValue(s, n.Name, t)
	}
	return IntLit(0)
}

func (x *Exec) evalBinary(s *State, n *ast.BinaryExpr) *Term {
	if n.Op == token.LAND || n.Op == token.LOR {
		a := x.evalCond(s, n.X)
		if n.Op == token.LAND && a == False {
			return False
		}
		if n.Op == token.LOR && a == True {
			return True
		}
		// evaluate Y under the guard
		c := s.clone()
		g := a
		if n.Op == token.LOR {
			g = Not(a)
		}
		c.assume(g)
		base := len(c.assumes)
		b := x.evalCond(c, n.Y)
		// propagate facts and heap effects guarded
		for _, f := range c.assumes[base:] {
			s.assume(Implies(g, f))
		}
		for k, v := range c.heap {
			if ov, ok := s.heap[k]; !ok {
				s.heap[k] = v
			} else if ov != v {
				s.heap[k] = Ite(g, v, ov)
			}
		}
		for k, v := range c.env {
			if ov, ok := s.env[k]; ok && ov != v && ov.S == v.S {
				s.env[k] = Ite(g, v, ov)
			}
		}
		if n.Op == token.LAND {
			return And(a, b)
		}
		return Or(a, b)
	}
	l := x.eval(s, n.X)
	r := x.eval(s, n.Y)
	return x.binop(s, n.Op, l, r, x.typeOf(n.X), x.typeOf(n.Y), n.Pos())
}

func pow2(k int64) *big.Int { return new(big.Int).Lsh(big.NewInt(1), uint(k)) }

func (x *Exec) binop(s *State, op token.Token, l, r *Term, lt, rt types.Type, p token.Pos) *Term {
	switch op {
	case token.EQL:
		return x.equalTerms(s, l, r, lt)
	case token.NEQ:
		return Not(x.equalTerms(s, l, r, lt))
	case token.LSS:
		return x.cmpTerms("<", l, r, lt)
	case token.LEQ:
		return x.cmpTerms("<=", l, r, lt)
	case token.GTR:
		return x.cmpTerms(">", l, r, lt)
	case token.GEQ:
		return x.cmpTerms(">=", l, r, lt)
	}
	isInt := l.S == SInt && r.S == SInt
	if l.S == StrSort && op == token.ADD {
		// concatenation: length known, contents abstract
		res := x.freshVar("concat", StrSort)
		s.assume(And(Eq(Field(res, 2), Arith("+", Field(l, 2), Field(r, 2))), Eq(Field(res, 1), IntLit(0))))
		return res
	}
	switch op {
	case token.ADD:
		return x.wrapInt(Arith("+", l, r), lt)
	case token.SUB:
		return x.wrapInt(Arith("-", l, r), lt)
	case token.MUL:
		return x.wrapInt(Arith("*", l, r), lt)
	case token.QUO:
		if isInt {
			x.oblige(s, "div", Not(Eq(r, IntLit(0))), p, "integer division by zero")
			return x.intDiv(l, r)
		}
		return x.realDiv(s, l, r)
	case token.REM:
		x.oblige(s, "div", Not(Eq(r, IntLit(0))), p, "integer modulo by zero")
		q := x.intDiv(l, r)
		return Arith("-", l, Arith("*", r, q))
	case token.SHL:
		if r.rat != nil && r.rat.IsInt() {
			return x.wrapInt(Arith("*", l, IntLitBig(pow2(r.rat.Num().Int64()))), lt)
		}
	case token.SHR:
		if r.rat != nil && r.rat.IsInt() {
			return IntDivMod("div", l, IntLitBig(pow2(r.rat.Num().Int64())))
		}
	case token.AND:
		if l.rat != nil && r.rat != nil {
			return IntLitBig(new(big.Int).And(l.rat.Num(), r.rat.Num()))
		}
		// x & (2^k-1) for non-negative x
		for _, pr := range [][2]*Term{{l, r}, {r, l}} {
			if m := pr[1].rat; m != nil && m.IsInt() {
				mm := new(big.Int).Add(m.Num(), big.NewInt(1))
				if mm.Sign() > 0 && new(big.Int).And(mm, m.Num()).Sign() == 0 {
					return Ite(Cmp(">=", pr[0], IntLit(0)), IntDivMod("mod", pr[0], IntLitBig(mm)), x.uf("bitand", SInt, l, r))
				}
			}
		}
		return x.uf("bitand", SInt, l, r)
	case token.OR:
		if l.rat != nil && r.rat != nil {
			return IntLitBig(new(big.Int).Or(l.rat.Num(), r.rat.Num()))
		}
		return x.uf("bitor", SInt, l, r)
	case token.XOR:
		if l.rat != nil && r.rat != nil {
			return IntLitBig(new(big.Int).Xor(l.rat.Num(), r.rat.Num()))
		}
		return x.uf("bitxor", SInt, l, r)
	case token.AND_NOT:
		return x.uf("bitandnot", SInt, l, r)
	}
	x.abstract("operator " + op.String())
	return x.freshVar("binop", l.S)
}


// Go integer division truncates toward zero
func (x *Exec) intDiv(a, b *Term) *Term {
	if b.rat != nil && b.rat.Sign() > 0 {
		// a >= 0: div; a < 0: -((-a) div b)
		return Ite(Cmp(">=", a, IntLit(0)), IntDivMod("div", a, b), Neg(IntDivMod("div", Neg(a), b)))
	}
	absA := Ite(Cmp(">=", a, IntLit(0)), a, Neg(a))
	absB := Ite(Cmp(">=", b, IntLit(0)), b, Neg(b))
	q := IntDivMod("div", absA, absB)
	same := Eq(Cmp(">=", a, IntLit(0)), Cmp(">", b, IntLit(0)))
	return Ite(same, q, Neg(q))
}

// wrapInt models wrap-around for small unsigned types (uint8/16/32); other integer types are mathematical
func (x *Exec) wrapInt(v *Term, t types.Type) *Term {
	if t == nil || v.S != SInt {
		return v
	}
	lo, hi, ok := intRange(t)
	if !ok {
		return v
	}
	if v.rat != nil {
		n := v.rat.Num()
		if n.Cmp(big.NewInt(lo)) >= 0 && n.Cmp(big.NewInt(hi)) <= 0 {
			return v
		}
	}
	size := new(big.Int).Add(big.NewInt(hi-lo), big.NewInt(1))
	if lo == 0 {
		return IntDivMod("mod", v, IntLitBig(size))
	}
	return Arith("+", IntDivMod("mod", Arith("-", v, IntLit(lo)), IntLitBig(size)), IntLit(lo))
}

func (x *Exec) cmpTerms(op string, l, r *Term, t types.Type) *Term {
	if l.S == StrSort {
		x.abstract("string ordering")
		return x.freshVar("strcmp", SBool)
	}
	return Cmp(op, l, r)
}

func (x *Exec) equalTerms(s *State, l, r *Term, t types.Type) *Term {
	if l.S == StrSort && r.S == StrSort {
		return x.strEqual(s, l, r)
	}
	if l.S == SliceSort && r.S == SliceSort {
		// only comparison with nil is legal Go
		if isZeroSlice(r) {
			return Eq(Field(l, 0), IntLit(0))
		}
		if isZeroSlice(l) {
			return Eq(Field(r, 0), IntLit(0))
		}
	}
	if l.S != r.S {
		// comparison with an untyped nil (modelled as integer 0)
		isNil := func(t *Term) bool { return t.S == SInt && t.rat != nil && t.rat.Sign() == 0 }
		for _, pr := range [][2]*Term{{l, r}, {r, l}} {
			if isNil(pr[1]) {
				switch pr[0].S {
				case IfaceSort:
					return Eq(Field(pr[0], 0), IntLit(0))
				case SliceSort:
					return Eq(Field(pr[0], 0), IntLit(0))
				}
			}
		}
		l, r = coerce(l, r)
		if l.S != r.S {
			// interface vs concrete etc.
			x.abstract("comparison across sorts")
			return x.freshVar("eq", SBool)
		}
	}
	return Eq(l, r)
}

func isZeroSlice(t *Term) bool {
	if t.K == TApp && t.Op == "mk_Slice" {
		return t.Args[0].rat != nil && t.Args[0].rat.Sign() == 0
	}
	return false
}

func (x *Exec) strEqual(s *State, l, r *Term) *Term {
	// if one side is a literal of known length: finite expansion
	lit, other := r, l
	n, ok := litLen(lit)
	if !ok {
		lit, other = l, r
		n, ok = litLen(lit)
	}
	if ok && n <= 64 {
		cs := []*Term{Eq(Field(other, 2), IntLit(int64(n)))}
		for i := 0; i < n; i++ {
			cs = append(cs, Eq(x.strByte(other, IntLit(int64(i))), x.strByte(lit, IntLit(int64(i)))))
		}
		return And(cs...)
	}
	i := BoundVar(x.freshName("k"), SInt)
	return And(Eq(Field(l, 2), Field(r, 2)),
		Forall([]*Term{i}, Implies(And(Cmp("<=", IntLit(0), i), Cmp("<", i, Field(l, 2))), Eq(x.strByte(l, i), x.strByte(r, i)))))
}

func litLen(t *Term) (int, bool) {
	if t.K == TApp && t.Op == "mk_Str" && t.Args[2].rat != nil && t.Args[1].rat != nil {
		return int(t.Args[2].rat.Num().Int64()), true
	}
	return 0, false
}

func (x *Exec) strByte(str, i *Term) *Term {
	return Select(Field(str, 0), Arith("+", Field(str, 1), i))
}

func (x *Exec) evalUnary(s *State, n *ast.UnaryExpr) *Term {
	switch n.Op {
	case token.NOT:
		x.goalMode = !x.goalMode
		v := x.evalCond(s, n.X)
		x.goalMode = !x.goalMode
		return Not(v)
	case token.SUB:
		return x.wrapInt(Neg(x.eval(s, n.X)), x.typeOf(n.X))
	case token.ADD:
		return x.eval(s, n.X)
	case token.AND:
		// &T{...}: allocate
		if cl, ok := unparen(n.X).(*ast.CompositeLit); ok {
			t := x.typeOf(cl)
			v := x.evalComposite(s, cl, t)
			ref := x.allocRef(s)
			x.storeDeref(s, ref, t, v)
			x.checkNewObjInv(s, ref, t, n.Pos())
			return ref
		}
		// &x.f / &x / &s[i]: pointers into existing storage are modelled only for heap objects' whole-struct fields
		x.abstract("address-of " + exprString(n.X))
		x.note("%s: address-of %s abstracted (fresh pointer)", x.pos(n.Pos()), exprString(n.X))
		ref := x.allocRef(s)
		if t := x.typeOf(n.X); t != nil {
			x.storeDeref(s, ref, t, x.eval(s, n.X))
		}
		return ref
	case token.XOR:
		v := x.eval(s, n.X)
		return Arith("-", Neg(v), IntLit(1))
	case token.ARROW:
		x.abstract("channel receive")
		return x.havocValue(s, "recv", x.typeOf(n))
	}
	return x.eval(s, n.X)
}

func unparen(e ast.Expr) ast.Expr {
	for {
		p, ok := e.(*ast.ParenExpr)
		if !ok {
			return e
		}
		e = p.X
	}
}

func (x *Exec) evalSelector(s *State, n *ast.SelectorExpr) *Term {
	sel := x.selection(n)
	if sel == nil {
		// qualified identifier
		return x.evalIdent(s, n.Sel)
	}
	if sel.Kind() != types.FieldVal {
		x.abstract("method value")
		return IntLit(0)
	}
	base := x.eval(s, n.X)
	x.derefText = exprString(n)
	defer func() { x.derefText = "" }()
	return x.selectPath(s, base, x.typeOf(n.X), sel.Index(), n.Pos())
}

func (x *Exec) selectPath(s *State, v *Term, t types.Type, path []int, p token.Pos) *Term {
	for _, i := range path {
		if isPointer(t) {
			txt := "nil dereference"
			if x.derefText != "" {
				txt += ": " + x.derefText
			}
			x.oblige(s, "nil", Not(Eq(v, IntLit(0))), p, txt)
			et := elemOfPointer(t)
			si := x.eng.tm.structOf(et)
			v = x.loadField(s, v, si, i)
			t = si.fields[i].Type()
			continue
		}
		si := x.eng.tm.structOf(t)
		v = Field(v, i)
		t = si.fields[i].Type()
	}
	return v
}

func (x *Exec) evalIndex(s *State, n *ast.IndexExpr) *Term {
	bt := x.typeOf(n.X)
	if bt == nil {
		x.abstract("index on unknown")
		return IntLit(0)
	}
	switch u := bt.Underlying().(type) {
	case *types.Slice:
		sv := x.eval(s, n.X)
		idx := x.eval(s, n.Index)
		inb := And(Cmp("<=", IntLit(0), idx), Cmp("<", idx, Field(sv, 2)))
		x.oblige(s, "index", inb, n.Pos(), exprString(n))
		s.assume(inb) // execution continues only if in bounds
		es := x.eng.tm.sortOf(u.Elem())
		ev := Select(Select(x.memGet(s, es), Field(sv, 0)), Arith("+", Field(sv, 1), idx))
		switch u.Elem().Underlying().(type) {
		case *types.Pointer, *types.Slice, *types.Map:
			if !idx.hasBound {
				s.assume(x.typeInv(s, ev, u.Elem(), 0))
			}
		}
		return ev
	case *types.Array:
		arr := x.eval(s, n.X)
		idx := x.eval(s, n.Index)
		if idx.rat == nil {
			inb := And(Cmp("<=", IntLit(0), idx), Cmp("<", idx, IntLit(u.Len())))
			x.oblige(s, "index", inb, n.Pos(), exprString(n))
			s.assume(inb)
		}
		return arrGet(arr, idx, u.Len())
	case *types.Pointer:
		if at, ok := u.Elem().Underlying().(*types.Array); ok {
			ref := x.eval(s, n.X)
			idx := x.eval(s, n.Index)
			x.oblige(s, "index", And(Cmp("<=", IntLit(0), idx), Cmp("<", idx, IntLit(at.Len()))), n.Pos(), exprString(n))
			return arrGet(x.loadDeref(s, ref, u.Elem(), n.Pos()), idx, at.Len())
		}
	case *types.Basic:
		if isString(bt) {
			str := x.eval(s, n.X)
			idx := x.eval(s, n.Index)
			inb := And(Cmp("<=", IntLit(0), idx), Cmp("<", idx, Field(str, 2)))
			x.oblige(s, "index", inb, n.Pos(), exprString(n))
			s.assume(inb)
			b := x.strByte(str, idx)
			return b
		}
	case *types.Map:
		m := x.eval(s, n.X)
		k := x.eval(s, n.Index)
		has := x.mapHas(s, bt, m, k)
		return Ite(has, x.mapLoad(s, bt, m, k), x.zero(u.Elem()))
	}
	x.abstract("index on " + bt.String())
	return x.havocValue(s, "idx", x.typeOf(n))
}

func (x *Exec) evalSlice(s *State, n *ast.SliceExpr) *Term {
	bt := x.typeOf(n.X)
	switch bt.Underlying().(type) {
	case *types.Slice:
		sv := x.eval(s, n.X)
		lo := IntLit(0)
		if n.Low != nil {
			lo = x.eval(s, n.Low)
		}
		hi := Field(sv, 2)
		if n.High != nil {
			hi = x.eval(s, n.High)
		}
		mx := Field(sv, 3)
		if n.Max != nil {
			mx = x.eval(s, n.Max)
		}
		inb := And(Cmp("<=", IntLit(0), lo), Cmp("<=", lo, hi), Cmp("<=", hi, mx), Cmp("<=", mx, Field(sv, 3)))
		x.oblige(s, "slice", inb, n.Pos(), exprString(n))
		s.assume(inb)
		if st, ok := bt.Underlying().(*types.Slice); ok && x.eng.usedWf && x.eng.tm.sortOf(st.Elem()) == SReal {
			a, o, ln := x.seqOf(s, sv)
			x.wfSliceRule(s, a, o, ln, lo, hi)
		}
		res := Mk(SliceSort, Field(sv, 0), Arith("+", Field(sv, 1), lo), Arith("-", hi, lo), Arith("-", mx, lo))
		if st, ok := bt.Underlying().(*types.Slice); ok && x.eng.tm.sortOf(st.Elem()) == SReal && res != sv {
			if x.sliceParent == nil {
				x.sliceParent = map[*Term]sliceParentInfo{}
			}
			x.sliceParent[res] = sliceParentInfo{sv, lo}
		}
		return res
	case *types.Basic:
		str := x.eval(s, n.X)
		lo := IntLit(0)
		if n.Low != nil {
			lo = x.eval(s, n.Low)
		}
		hi := Field(str, 2)
		if n.High != nil {
			hi = x.eval(s, n.High)
		}
		inb := And(Cmp("<=", IntLit(0), lo), Cmp("<=", lo, hi), Cmp("<=", hi, Field(str, 2)))
		x.oblige(s, "slice", inb, n.Pos(), exprString(n))
		s.assume(inb)
		return Mk(StrSort, Field(str, 0), Arith("+", Field(str, 1), lo), Arith("-", hi, lo))
	case *types.Array:
		// slicing an array value: copy into a fresh block (aliasing with the array variable is lost)
		x.abstract("slice of array value (copied)")
		arr := x.eval(s, n.X)
		at := bt.Underlying().(*types.Array)
		es := x.eng.tm.sortOf(at.Elem())
		blk := x.allocBlock(s)
		mem := x.memGet(s, es)
		if arr.S.Kind == KDT {
			a := Select(mem, blk)
			for i := int64(0); i < at.Len(); i++ {
				a = Store(a, IntLit(i), Field(arr, int(i)))
			}
			arr = a
		}
		x.heapSet(s, memName(es), Store(mem, blk, arr))
		sv := Mk(SliceSort, blk, IntLit(0), IntLit(at.Len()), IntLit(at.Len()))
		lo := IntLit(0)
		if n.Low != nil {
			lo = x.eval(s, n.Low)
		}
		hi := IntLit(at.Len())
		if n.High != nil {
			hi = x.eval(s, n.High)
		}
		inb := And(Cmp("<=", IntLit(0), lo), Cmp("<=", lo, hi), Cmp("<=", hi, IntLit(at.Len())))
		x.oblige(s, "slice", inb, n.Pos(), exprString(n))
		return Mk(SliceSort, Field(sv, 0), lo, Arith("-", hi, lo), Arith("-", IntLit(at.Len()), lo))
	}
	x.abstract("slice expr on " + bt.String())
	return x.havocValue(s, "slice", x.typeOf(n))
}

func (x *Exec) evalComposite(s *State, n *ast.CompositeLit, t types.Type) *Term {
	if t == nil {
		x.abstract("composite literal of unknown type")
		return IntLit(0)
	}
	if isPointer(t) {
		// elided &T in a slice/map literal
		et := elemOfPointer(t)
		v := x.evalComposite(s, n, et)
		ref := x.allocRef(s)
		x.storeDeref(s, ref, et, v)
		return ref
	}
	switch u := t.Underlying().(type) {
	case *types.Struct:
		si := x.eng.tm.structOf(t)
		args := make([]*Term, len(si.sort.Fields))
		for i := range args {
			if i < len(si.fields) {
				args[i] = x.zero(si.fields[i].Type())
			} else {
				args[i] = IntLit(0)
			}
		}
		for i, el := range n.Elts {
			if kv, ok := el.(*ast.KeyValueExpr); ok {
				name := kv.Key.(*ast.Ident).Name
				for j, f := range si.fields {
					if f.Name() == name {
						args[j] = x.evalElem(s, kv.Value, f.Type())
					}
				}
			} else if i < len(si.fields) {
				args[i] = x.evalElem(s, el, si.fields[i].Type())
			}
		}
		return Mk(si.sort, args...)
	case *types.Array:
		arr := x.zero(t)
		idx := int64(0)
		for _, el := range n.Elts {
			if kv, ok := el.(*ast.KeyValueExpr); ok {
				k := x.eval(s, kv.Key)
				if k.rat != nil {
					idx = k.rat.Num().Int64()
				}
				arr = arrSet(arr, IntLit(idx), x.fit(x.evalElem(s, kv.Value, u.Elem()), x.eng.tm.sortOf(u.Elem())), u.Len())
			} else {
				arr = arrSet(arr, IntLit(idx), x.fit(x.evalElem(s, el, u.Elem()), x.eng.tm.sortOf(u.Elem())), u.Len())
			}
			idx++
		}
		return arr
	case *types.Slice:
		es := x.eng.tm.sortOf(u.Elem())
		blk := x.allocBlock(s)
		arr := Select(x.memGet(s, es), blk)
		idx := int64(0)
		maxIdx := int64(0)
		for _, el := range n.Elts {
			var v *Term
			if kv, ok := el.(*ast.KeyValueExpr); ok {
				k := x.eval(s, kv.Key)
				if k.rat != nil {
					idx = k.rat.Num().Int64()
				}
				v = x.evalElem(s, kv.Value, u.Elem())
			} else {
				v = x.evalElem(s, el, u.Elem())
			}
			arr = Store(arr, IntLit(idx), x.fit(v, es))
			idx++
			if idx > maxIdx {
				maxIdx = idx
			}
		}
		x.heapSet(s, memName(es), Store(x.memGet(s, es), blk, arr))
		return Mk(SliceSort, blk, IntLit(0), IntLit(maxIdx), IntLit(maxIdx))
	case *types.Map:
		ref := x.allocRef(s)
		x.mapInit(s, t, ref)
		for _, el := range n.Elts {
			if kv, ok := el.(*ast.KeyValueExpr); ok {
				k := x.eval(s, kv.Key)
				v := x.evalElem(s, kv.Value, u.Elem())
				x.mapStore(s, t, ref, k, v)
			}
		}
		return ref
	}
	x.abstract("composite literal " + t.String())
	return x.havocValue(s, "lit", t)
}

// evalElem evaluates an element of a composite literal (handles elided inner types and conversion to interface)
func (x *Exec) evalElem(s *State, e ast.Expr, want types.Type) *Term {
	if cl, ok := e.(*ast.CompositeLit); ok && cl.Type == nil {
		return x.evalComposite(s, cl, want)
	}
	v := x.eval(s, e)
	return x.convertTo(s, v, x.typeOf(e), want)
}

// convertTo handles implicit conversions on assignment (concrete -> interface, int const -> float)
func (x *Exec) convertTo(s *State, v *Term, from, to types.Type) *Term {
	if to == nil || from == nil {
		return v
	}
	if isInterface(to) && !isInterface(from) {
		return x.box(s, v, from)
	}
	want := x.eng.tm.sortOf(to)
	if v.S != want {
		if want == SReal && v.S == SInt {
			return ToReal(v)
		}
		if want == IfaceSort && v.S == SInt {
			return Mk(IfaceSort, IntLit(0), IntLit(0))
		}
		if v.S == SInt && v.rat != nil && v.rat.Sign() == 0 {
			return x.zero(to) // untyped nil
		}
	}
	return v
}

// ---- interfaces: (tag, payload). Payload for reference types is the reference; other values are boxed via an
// uninterpreted injective encoding box_T / unbox_T.
func (x *Exec) box(s *State, v *Term, t types.Type) *Term {
	if isNilType(t) {
		return Mk(IfaceSort, IntLit(0), IntLit(0))
	}
	tag := IntLit(int64(x.eng.tm.tagOf(t)))
	if v.S == SInt {
		return Mk(IfaceSort, tag, v)
	}
	// boxed value: the payload is a function of the value (interface values holding equal values are equal, as in
	// Go), with unbox(box(v)) = v
	bf := "box_" + v.S.Mangle()
	declareUF(bf, []*Sort{v.S}, SInt)
	p := App(bf, SInt, v)
	fn := "unbox_" + v.S.Mangle()
	declareUF(fn, []*Sort{SInt}, v.S)
	s.assume(Eq(App(fn, v.S, p), v))
	return Mk(IfaceSort, tag, p)
}

func (x *Exec) unbox(s *State, v *Term, t types.Type) *Term {
	want := x.eng.tm.sortOf(t)
	if want == SInt {
		return Field(v, 1)
	}
	if want == IfaceSort {
		return v
	}
	fn := "unbox_" + want.Mangle()
	declareUF(fn, []*Sort{SInt}, want)
	return App(fn, want, Field(v, 1))
}

type ufDecl struct {
	args []*Sort
	res  *Sort
}

var ufDecls = map[string]ufDecl{}
var ufOrder []string

func declareUF(name string, args []*Sort, res *Sort) {
	if _, ok := ufDecls[name]; ok {
		return
	}
	ufDecls[name] = ufDecl{args, res}
	ufOrder = append(ufOrder, name)
}

// ---- maps: reference r; MapV_<K>_<V>[r] : Array K V ; MapD_<K>[r] : Array K Bool
func (x *Exec) mapNames(t types.Type) (string, string, *Sort, *Sort) {
	mt := t.Underlying().(*types.Map)
	ks := x.eng.tm.sortOf(mt.Key())
	vs := x.eng.tm.sortOf(mt.Elem())
	tn := shortTypeName(types.NewMap(mt.Key(), mt.Elem()))
	return "MapV_" + tn, "MapD_" + tn, ks, vs
}

func (x *Exec) mapHas(s *State, t types.Type, m, k *Term) *Term {
	_, dn, ks, _ := x.mapNames(t)
	d := x.heapGet(s, dn, ArrayOf(SInt, ArrayOf(ks, SBool)))
	return Select(Select(d, m), k)
}

func (x *Exec) mapLoad(s *State, t types.Type, m, k *Term) *Term {
	vn, _, ks, vs := x.mapNames(t)
	h := x.heapGet(s, vn, ArrayOf(SInt, ArrayOf(ks, vs)))
	v := Select(Select(h, m), k)
	mt := t.Underlying().(*types.Map)
	switch mt.Elem().Underlying().(type) {
	case *types.Slice, *types.Pointer, *types.Map:
		s.assume(x.typeInv(s, v, mt.Elem(), 0))
	}
	return v
}

func (x *Exec) mapStore(s *State, t types.Type, m, k, v *Term) {
	vn, dn, ks, vs := x.mapNames(t)
	h := x.heapGet(s, vn, ArrayOf(SInt, ArrayOf(ks, vs)))
	d := x.heapGet(s, dn, ArrayOf(SInt, ArrayOf(ks, SBool)))
	v = x.fit(v, vs)
	x.heapSet(s, vn, Store(h, m, Store(Select(h, m), k, v)))
	x.heapSet(s, dn, Store(d, m, Store(Select(d, m), k, True)))
}

func (x *Exec) mapInit(s *State, t types.Type, ref *Term) {
	_, dn, ks, _ := x.mapNames(t)
	d := x.heapGet(s, dn, ArrayOf(SInt, ArrayOf(ks, SBool)))
	empty := App("(as const "+ArrayOf(ks, SBool).String()+")", ArrayOf(ks, SBool), False)
	x.heapSet(s, dn, Store(d, ref, empty))
}

func isPoolGet(x *Exec, e ast.Expr) bool {
	call, ok := unparen(e).(*ast.CallExpr)
	if !ok {
		return false
	}
	if f, ok := x.calleeObj(call).(*types.Func); ok {
		return f.FullName() == "(*sync.Pool).Get"
	}
	return false
}
