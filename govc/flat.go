package main

// "+flat" solver variant (sound for unsat): every free constant of a datatype sort is replaced by a constructor
// application over fresh scalar constants (single-constructor datatypes: every value has that shape), so that
// selectors fold away, and every ground reciprocal rinv(t) is replaced by a fresh constant (dropping the
// congruence of rinv only removes facts). Quantified hypotheses are dropped. What remains for typical geometry
// obligations is a quantifier-free polynomial problem that the nonlinear real solver decides directly.

import "fmt"

func expandDT(name string, s *Sort, n *int) *Term {
	if s.Kind != KDT || len(s.Fields) == 0 {
		return Var(name, s)
	}
	args := make([]*Term, len(s.Fields))
	for i, f := range s.Fields {
		*n++
		args[i] = expandDT(fmt.Sprintf("%s__%d", name, i), f.S, n)
	}
	return App("mk_"+s.Name, s, args...)
}

func collectDTVars(t *Term, seen map[*Term]bool, out map[*Term]*Term) {
	if seen[t] {
		return
	}
	seen[t] = true
	if t.K == TVar && t.S.Kind == KDT && len(t.S.Fields) > 0 {
		if _, ok := out[t]; !ok {
			n := 0
			out[t] = expandDT("fl_"+sanitizeSym(t.Op), t.S, &n)
		}
		return
	}
	for _, a := range t.Args {
		collectDTVars(a, seen, out)
	}
	if t.K == TVar && t.def != nil {
		collectDTVars(t.def, seen, out)
	}
}

func ackRinv(t *Term, cache map[*Term]*Term, names map[*Term]*Term) *Term {
	if r, ok := cache[t]; ok {
		return r
	}
	if len(t.Args) == 0 {
		return t
	}
	args := make([]*Term, len(t.Args))
	changed := false
	for i, a := range t.Args {
		args[i] = ackRinv(a, cache, names)
		if args[i] != a {
			changed = true
		}
	}
	r := t
	if changed {
		if t.K == TQuant {
			nt := newTerm(TQuant, t.Op, SBool, args[0])
			nt.Bound = t.Bound
			nt.Pats = t.Pats
			nt.hasBound = termHasFreeBound(args[0], t.Bound)
			r = nt
		} else {
			r = rebuild(t, args)
		}
	}
	// ground applications of uninterpreted functions (reciprocal, math functions, modular call results)
	// become fresh constants (datatype-valued ones: constructor terms over fresh constants)
	if r.K == TApp && !r.hasBound && r.S != SBool && r.S.Kind != KArray {
		if _, isUF := ufDecls[r.Op]; isUF {
			c, ok := names[r]
			if !ok {
				n := 0
				c = expandDT(fmt.Sprintf("ack%d_%s", len(names), sanitizeSym(r.Op)), r.S, &n)
				names[r] = c
			}
			r = c
		}
	}
	cache[t] = r
	return r
}

// flatten returns the transformed hypotheses and goal, or ok=false when the variant does not apply
func flatten(hyps []*Term, goal *Term) ([]*Term, *Term, bool) {
	if goal == nil || hasQuant(goal) {
		return nil, nil, false
	}
	sub := map[*Term]*Term{}
	seen := map[*Term]bool{}
	var keep []*Term
	for _, h := range hyps {
		if hasQuant(h) {
			continue
		}
		keep = append(keep, h)
		collectDTVars(h, seen, sub)
	}
	collectDTVars(goal, seen, sub)
	cache := map[*Term]*Term{}
	names := map[*Term]*Term{}
	out := make([]*Term, len(keep))
	for i, h := range keep {
		if len(sub) > 0 {
			h = Substitute(h, sub)
		}
		out[i] = ackRinv(h, cache, names)
	}
	g := goal
	if len(sub) > 0 {
		g = Substitute(g, sub)
	}
	g = ackRinv(g, cache, names)
	return coneOfInfluence(out, g), g, true
}

func freeSyms(t *Term, seen map[*Term]bool, out map[*Term]bool) {
	if seen[t] {
		return
	}
	seen[t] = true
	if t.K == TVar {
		out[t] = true
		if t.def != nil {
			freeSyms(t.def, seen, out)
		}
	}
	for _, a := range t.Args {
		freeSyms(a, seen, out)
	}
}

// coneOfInfluence keeps the hypotheses that share a free symbol, transitively, with the goal (dropping the
// others is sound); this removes e.g. the allocation-counter facts that would make a real-arithmetic problem mixed.
func coneOfInfluence(hyps []*Term, goal *Term) []*Term {
	syms := make([]map[*Term]bool, len(hyps))
	for i, h := range hyps {
		syms[i] = map[*Term]bool{}
		freeSyms(h, map[*Term]bool{}, syms[i])
	}
	rel := map[*Term]bool{}
	freeSyms(goal, map[*Term]bool{}, rel)
	in := make([]bool, len(hyps))
	for changed := true; changed; {
		changed = false
		for i := range hyps {
			if in[i] {
				continue
			}
			hit := len(syms[i]) == 0
			for v := range syms[i] {
				if rel[v] {
					hit = true
					break
				}
			}
			if hit {
				in[i] = true
				changed = true
				for v := range syms[i] {
					rel[v] = true
				}
			}
		}
	}
	var out []*Term
	for i, h := range hyps {
		if in[i] {
			out = append(out, h)
		}
	}
	return out
}
