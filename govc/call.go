package main

// Calls: builtins, math models, spec helpers, inlining, modular use of contracts.

import (
	"os"
	"fmt"
	"go/constant"
	"math"
	"go/ast"
	"go/token"
	"go/types"
	"math/big"
	"strings"
)

const maxInlineDepth = 10

func isSpecHelper(f *types.Func) bool {
	switch f.Name() {
	case "old", "forallInt", "existsInt", "forallReal", "existsReal", "implies", "assert", "assume", "iff", "fresh", "memEq", "lemmaUse", "wfd", "bnd", "sameSlice", "sameSlice16", "iterStart", "allocd", "ghostRank", "rangeIndex", "inPlace", "same", "sharesMem", "wroteSeq", "wroteLast", "callCount", "callArgF", "callArgI", "callArgB", "callResF", "callResI", "callResB", "callSeen", "rangeSlice", "callArgIs":
		return f.Pkg() != nil && strings.Contains(f.Pkg().Path(), "tdewolff/canvas")
	}
	return false
}

func (x *Exec) calleeObj(call *ast.CallExpr) types.Object {
	fun := unparen(call.Fun)
	switch f := fun.(type) {
	case *ast.Ident:
		return x.objOf(f)
	case *ast.SelectorExpr:
		return x.objOf(f.Sel)
	case *ast.IndexExpr: // generic instantiation
		switch g := f.X.(type) {
		case *ast.Ident:
			return x.objOf(g)
		case *ast.SelectorExpr:
			return x.objOf(g.Sel)
		}
	}
	return nil
}

func (x *Exec) callMulti(s *State, call *ast.CallExpr) []*Term {
	if s.dead {
		return x.deadResults(call)
	}
	// conversion?
	if tv, ok := x.tv(call.Fun); ok && tv.IsType() {
		v := x.eval(s, call.Args[0])
		return []*Term{x.convert(s, v, x.typeOf(call.Args[0]), tv.Type, call.Pos())}
	}
	obj := x.calleeObj(call)
	switch o := obj.(type) {
	case *types.Builtin:
		return x.callBuiltin(s, o.Name(), call)
	case *types.Func:
		// devirtualise <GlobalIfaceVar>.Method() when the global is initialised with a value of a known concrete
		// type (the global frame analysis of C20 reports any later assignment to such a variable)
		if sig, ok := o.Type().(*types.Signature); ok && sig.Recv() != nil && isInterface(sig.Recv().Type()) {
			if sel, ok := unparen(call.Fun).(*ast.SelectorExpr); ok {
				if id, ok := unparen(sel.X).(*ast.Ident); ok {
					if gv, ok := x.objOf(id).(*types.Var); ok && x.isGlobal(gv) {
						if init := x.eng.globalInit[gv]; init != nil {
							if ct := x.eng.globalInitPkg[gv].TypesInfo.TypeOf(init); ct != nil && !isInterface(ct) {
								if m, _, _ := types.LookupFieldOrMethod(ct, true, gv.Pkg(), o.Name()); m != nil {
									if mf, ok := m.(*types.Func); ok {
										if fi := x.eng.funcs[mf.Origin()]; fi != nil {
											recv := x.zero(ct)
											if cl, ok := unparen(init).(*ast.CompositeLit); ok {
												x.frames = append(x.frames, &Frame{fi: fi, info: x.eng.globalInitPkg[gv].TypesInfo, inlined: true})
												recv = x.evalComposite(s, cl, ct)
												x.frames = x.frames[:len(x.frames)-1]
											}
											return x.callStatic(s, fi, recv, call)
										}
									}
								}
							}
						}
					}
				}
			}
		}
		// a method of an interface declared in the verified module: when every implementation in the module is
		// side-effect free (purity analysis), the call is a deterministic function of (receiver, arguments, epoch)
		// and writes nothing (closed world: implementations outside the module are not considered; listed as an assumption)
		if sig, ok := o.Type().(*types.Signature); ok && sig.Recv() != nil && isInterface(sig.Recv().Type()) && x.eng.funcs[o.Origin()] == nil {
			if vals, ok := x.callPureInterface(s, o, sig, call); ok {
				return vals
			}
		}
		return x.callFunc(s, o, call)
	case *types.Var:
		// closure bound to a local variable
		for i := len(x.frames) - 1; i >= 0; i-- {
			if fl := x.frames[i].closures[o]; fl != nil {
				return x.inlineClosure(s, fl, call)
			}
		}
	}
	if fl, ok := unparen(call.Fun).(*ast.FuncLit); ok {
		return x.inlineClosure(s, fl, call)
	}
	// a function value produced by a callee whose contract declares its function results side-effect free
	// (resultpure, an assumption listed in the evidence): uninterpreted function of (value, arguments), no havoc
	if id, ok := unparen(call.Fun).(*ast.Ident); ok && x.pureFV != nil {
		if _, isVar := x.frame().info.ObjectOf(id).(*types.Var); isVar {
			fv := x.eval(s, id)
			if x.pureFV[fv] {
				if sig, ok := x.typeOf(call.Fun).Underlying().(*types.Signature); ok {
					as := []*Term{fv}
					for i, a := range call.Args {
						var pt types.Type
						if i < sig.Params().Len() {
							pt = sig.Params().At(i).Type()
						}
						v := x.eval(s, a)
						if pt != nil {
							v = x.fit(v, x.eng.tm.sortOf(pt))
						}
						as = append(as, v)
					}
					var out []*Term
					for i := 0; i < sig.Results().Len(); i++ {
						rt := sig.Results().At(i).Type()
						v := x.uf(fmt.Sprintf("fvcall_%s_%d", sanitize(types.TypeString(sig, nil)), i), x.eng.tm.sortOf(rt), as...)
						s.assume(x.typeInv(s, v, rt, 0))
						out = append(out, v)
					}
					return out
				}
			}
		}
	}
	// unknown callee: evaluate args for their obligations, havoc
	for _, a := range call.Args {
		x.eval(s, a)
	}
	x.abstract("call through function value / interface: " + exprString(call.Fun))
	x.havocAllHeap(s)
	return x.havocResults(s, call)
}

func (x *Exec) deadResults(call *ast.CallExpr) []*Term {
	t := x.typeOf(call)
	if tup, ok := t.(*types.Tuple); ok {
		out := make([]*Term, tup.Len())
		for i := range out {
			out[i] = x.zero(tup.At(i).Type())
		}
		return out
	}
	if t == nil {
		return nil
	}
	return []*Term{x.zero(t)}
}

func (x *Exec) havocResults(s *State, call *ast.CallExpr) []*Term {
	t := x.typeOf(call)
	if t == nil {
		return nil
	}
	if tup, ok := t.(*types.Tuple); ok {
		out := make([]*Term, tup.Len())
		for i := range out {
			out[i] = x.havocValue(s, "res", tup.At(i).Type())
		}
		return out
	}
	return []*Term{x.havocValue(s, "res", t)}
}

func (x *Exec) convert(s *State, v *Term, from, to types.Type, p token.Pos) *Term {
	if from == nil || to == nil {
		return v
	}
	switch {
	case isFloat(to):
		return ToReal(v)
	case isInteger(to) && isFloat(from):
		// truncation toward zero
		fl := App("to_int", SInt, v)
		tr := Ite(Cmp(">=", v, RealLitF(0)), fl, Neg(App("to_int", SInt, Neg(v))))
		return x.wrapInt(tr, to)
	case isInteger(to) && isInteger(from):
		return x.wrapInt(v, to)
	case isInterface(to) && !isInterface(from):
		return x.box(s, v, from)
	case isString(to) && isSlice(from) && !isByteSlice(from):
		// string([]rune): UTF-8 encoding is not modelled: an arbitrary string of at least as many bytes as runes
		x.abstract("string([]rune) (contents arbitrary)")
		res := x.havocValue(s, "str", to)
		s.assume(Cmp(">=", Field(res, 2), Field(v, 2)))
		return res
	case isSlice(to) && isString(from) && !isByteSlice(to):
		// []rune(string): UTF-8 decoding is not modelled: a new array of at most len(s) arbitrary runes (exactly
		// len(s) for an ASCII string is not assumed either)
		x.abstract("[]rune(string) (contents arbitrary)")
		blk := x.allocBlock(s)
		n := x.freshVar("nrunes", SInt)
		s.assume(And(Cmp("<=", IntLit(0), n), Cmp("<=", n, Field(v, 2)), Implies(Cmp(">", Field(v, 2), IntLit(0)), Cmp(">", n, IntLit(0)))))
		mem := x.memGet(s, SInt)
		x.heapSet(s, memName(SInt), Store(mem, blk, x.freshVar("runes", ArrayOf(SInt, SInt))))
		return Mk(SliceSort, blk, IntLit(0), n, n)
	case isString(to) && isSlice(from):
		// string(bytes): same contents
		es := SInt
		res := x.freshVar("str", StrSort)
		s.assume(And(Eq(Field(res, 1), IntLit(0)), Eq(Field(res, 2), Field(v, 2))))
		k := BoundVar(x.freshName("k"), SInt)
		mem := Select(x.memGet(s, es), Field(v, 0))
		s.assume(Forall([]*Term{k}, Implies(And(Cmp("<=", IntLit(0), k), Cmp("<", k, Field(v, 2))),
			Eq(Select(Field(res, 0), k), Select(mem, Arith("+", Field(v, 1), k))))))
		return res
	case isSlice(to) && isString(from):
		es := SInt
		blk := x.allocBlock(s)
		mem := x.memGet(s, es)
		arr := x.freshVar("bytes", ArrayOf(SInt, SInt))
		k := BoundVar(x.freshName("k"), SInt)
		s.assume(Forall([]*Term{k}, Implies(And(Cmp("<=", IntLit(0), k), Cmp("<", k, Field(v, 2))),
			Eq(Select(arr, k), x.strByte(v, k)))))
		x.heapSet(s, memName(es), Store(mem, blk, arr))
		return Mk(SliceSort, blk, IntLit(0), Field(v, 2), Field(v, 2))
	case isString(to) && isInteger(from):
		x.abstract("string(rune)")
		return x.havocValue(s, "str", to)
	}
	if x.eng.tm.sortOf(to) != v.S {
		x.abstract(fmt.Sprintf("conversion %s -> %s", from, to))
		return x.havocValue(s, "conv", to)
	}
	return v
}

func (x *Exec) callBuiltin(s *State, name string, call *ast.CallExpr) []*Term {
	switch name {
	case "len", "cap":
		v := x.eval(s, call.Args[0])
		t := x.typeOf(call.Args[0])
		switch u := t.Underlying().(type) {
		case *types.Slice:
			if name == "len" {
				return []*Term{Field(v, 2)}
			}
			return []*Term{Field(v, 3)}
		case *types.Array:
			return []*Term{IntLit(u.Len())}
		case *types.Basic:
			return []*Term{Field(v, 2)}
		case *types.Pointer:
			if at, ok := u.Elem().Underlying().(*types.Array); ok {
				return []*Term{IntLit(at.Len())}
			}
		case *types.Map:
			x.abstract("len(map)")
			r := x.freshVar("maplen", SInt)
			s.assume(Cmp("<=", IntLit(0), r))
			return []*Term{r}
		}
		x.abstract("len of " + t.String())
		r := x.freshVar("len", SInt)
		s.assume(Cmp("<=", IntLit(0), r))
		return []*Term{r}
	case "append":
		return []*Term{x.callAppend(s, call)}
	case "make":
		t := x.typeOf(call.Args[0])
		switch u := t.Underlying().(type) {
		case *types.Slice:
			n := x.eval(s, call.Args[1])
			c := n
			if len(call.Args) > 2 {
				c = x.eval(s, call.Args[2])
			}
			x.oblige(s, "make", And(Cmp("<=", IntLit(0), n), Cmp("<=", n, c)), call.Pos(), exprString(call))
			es := x.eng.tm.sortOf(u.Elem())
			blk := x.allocBlock(s)
			mem := x.memGet(s, es)
			zeroArr := App("(as const "+ArrayOf(SInt, es).String()+")", ArrayOf(SInt, es), x.zero(u.Elem()))
			x.heapSet(s, memName(es), Store(mem, blk, zeroArr))
			return []*Term{Mk(SliceSort, blk, IntLit(0), n, c)}
		case *types.Map:
			for _, a := range call.Args[1:] {
				x.eval(s, a)
			}
			ref := x.allocRef(s)
			x.mapInit(s, t, ref)
			return []*Term{ref}
		}
		x.abstract("make " + t.String())
		return []*Term{x.havocValue(s, "make", t)}
	case "new":
		t := x.typeOf(call.Args[0])
		ref := x.allocRef(s)
		x.storeDeref(s, ref, t, x.zero(t))
		return []*Term{ref}
	case "copy":
		dst := x.eval(s, call.Args[0])
		src := x.eval(s, call.Args[1])
		dt := x.typeOf(call.Args[0]).Underlying().(*types.Slice)
		es := x.eng.tm.sortOf(dt.Elem())
		var srcLen *Term
		var srcAt func(k *Term) *Term
		mem := x.memGet(s, es)
		if src.S == StrSort {
			srcLen = Field(src, 2)
			srcAt = func(k *Term) *Term { return x.strByte(src, k) }
		} else {
			srcLen = Field(src, 2)
			sarr := Select(mem, Field(src, 0))
			srcAt = func(k *Term) *Term { return Select(sarr, Arith("+", Field(src, 1), k)) }
		}
		n := Ite(Cmp("<", Field(dst, 2), srcLen), Field(dst, 2), srcLen)
		old := Select(mem, Field(dst, 0))
		na := x.freshVar("copied", ArrayOf(SInt, es))
		k := BoundVar(x.freshName("k"), SInt)
		off := Field(dst, 1)
		rel := Arith("-", k, off)
		s.assume(Forall([]*Term{k}, Eq(Select(na, k),
			Ite(And(Cmp("<=", off, k), Cmp("<", rel, n)), srcAt(rel), Select(old, k)))))
		x.heapSet(s, memName(es), Store(mem, Field(dst, 0), na))
		if es == SReal && x.eng.usedWf && src.S == SliceSort {
			x.wfCopyRule(s, Select(mem, Field(src, 0)), Field(src, 1), Field(src, 2), na, off, n, Field(dst, 2))
		}
		return []*Term{n}
	case "panic":
		for _, a := range call.Args {
			x.eval(s, a)
		}
		x.oblige(s, "panic", False, call.Pos(), exprString(call))
		s.dead = true
		return nil
	case "min", "max":
		v := x.eval(s, call.Args[0])
		for _, a := range call.Args[1:] {
			w := x.eval(s, a)
			v, w = coerce(v, w)
			if name == "min" {
				v = Ite(Cmp("<=", v, w), v, w)
			} else {
				v = Ite(Cmp(">=", v, w), v, w)
			}
		}
		return []*Term{v}
	case "delete":
		m := x.eval(s, call.Args[0])
		k := x.eval(s, call.Args[1])
		t := x.typeOf(call.Args[0])
		_, dn, ks, _ := x.mapNames(t)
		d := x.heapGet(s, dn, ArrayOf(SInt, ArrayOf(ks, SBool)))
		x.heapSet(s, dn, Store(d, m, Store(Select(d, m), k, False)))
		return nil
	case "print", "println":
		return nil
	case "real", "imag", "complex", "recover", "close", "clear":
		x.abstract("builtin " + name)
		return x.havocResults(s, call)
	}
	x.abstract("builtin " + name)
	return x.havocResults(s, call)
}

func (x *Exec) callAppend(s *State, call *ast.CallExpr) *Term {
	sv := x.eval(s, call.Args[0])
	st := x.typeOf(call.Args[0]).Underlying().(*types.Slice)
	es := x.eng.tm.sortOf(st.Elem())
	ln, cp := Field(sv, 2), Field(sv, 3)
	if call.Ellipsis != token.NoPos {
		// append(a, b...)
		src := x.eval(s, call.Args[1])
		n := Field(src, 2)
		mem := x.memGet(s, es)
		inplace := Cmp("<=", Arith("+", ln, n), cp)
		fresh := x.allocBlock(s)
		newCap := x.freshVar("cap", SInt)
		s.assume(Cmp("<=", Arith("+", ln, n), newCap))
		blk := Ite(inplace, Field(sv, 0), fresh)
		off := Ite(inplace, Field(sv, 1), IntLit(0))
		old := Select(mem, Field(sv, 0))
		var srcAt func(k *Term) *Term
		if src.S == StrSort {
			srcAt = func(k *Term) *Term { return x.strByte(src, k) }
		} else {
			sarr := Select(mem, Field(src, 0))
			srcAt = func(k *Term) *Term { return Select(sarr, Arith("+", Field(src, 1), k)) }
		}
		na := x.freshVar("appended", ArrayOf(SInt, es))
		k := BoundVar(x.freshName("k"), SInt)
		rel := Arith("-", k, off)
		// na[k] = src[rel-len] for len <= rel < len+n ; old contents (shifted if fresh) for 0 <= rel < len ; in place: other cells unchanged
		s.assume(Forall([]*Term{k}, Eq(Select(na, k),
			Ite(And(Cmp("<=", ln, rel), Cmp("<", rel, Arith("+", ln, n))), srcAt(Arith("-", rel, ln)),
				Ite(inplace, Select(old, k), Select(old, Arith("+", Field(sv, 1), k)))))))
		x.heapSet(s, memName(es), Store(mem, blk, na))
		if es == SReal && x.eng.usedWf && src.S == SliceSort {
			x.wfConcatRule(s, old, Field(sv, 1), ln, Select(mem, Field(src, 0)), Field(src, 1), n, na, off)
			// the source is a suffix (from a record boundary to the end) of a larger command sequence
			root, lo := src, IntLit(0)
			for k := 0; k < 4; k++ {
				pi, ok := x.sliceParent[root]
				if !ok {
					break
				}
				root, lo = pi.parent, Arith("+", lo, pi.lo)
			}
			if root != src {
				x.wfConcatSuffixRule(s, old, Field(sv, 1), ln, Select(mem, Field(root, 0)), Field(root, 1), Field(root, 2), lo, n, na, off)
			}
		}
		return Mk(SliceSort, blk, off, Arith("+", ln, n), Ite(inplace, cp, newCap))
	}
	n := int64(len(call.Args) - 1)
	if n == 0 {
		return sv
	}
	vals := make([]*Term, n)
	for i := range vals {
		vals[i] = x.fit(x.evalElem(s, call.Args[i+1], st.Elem()), es)
	}
	mem := x.memGet(s, es)
	inplace := Cmp("<=", Arith("+", ln, IntLit(n)), cp)
	fresh := x.allocBlock(s)
	newCap := x.freshVar("cap", SInt)
	s.assume(Cmp("<=", Arith("+", ln, IntLit(n)), newCap))
	blk := Ite(inplace, Field(sv, 0), fresh)
	off := Ite(inplace, Field(sv, 1), IntLit(0))
	old := Select(mem, Field(sv, 0))
	// fresh block: copy of old prefix (quantified), then stores
	copied := x.freshVar("copied", ArrayOf(SInt, es))
	k := BoundVar(x.freshName("k"), SInt)
	s.assume(Forall([]*Term{k}, Implies(And(Cmp("<=", IntLit(0), k), Cmp("<", k, ln)),
		Eq(Select(copied, k), Select(old, Arith("+", Field(sv, 1), k))))))
	// ground instances of the copy axiom at the first and last old cell (the cells code most often reads next)
	for _, kk := range []*Term{IntLit(0), Arith("-", ln, IntLit(1))} {
		s.assume(Implies(And(Cmp("<=", IntLit(0), kk), Cmp("<", kk, ln)),
			Eq(Select(copied, kk), Select(old, Arith("+", Field(sv, 1), kk)))))
	}
	arr := Ite(inplace, old, copied)
	for i, v := range vals {
		arr = Store(arr, Arith("+", Arith("+", off, ln), IntLit(int64(i))), v)
	}
	x.heapSet(s, memName(es), Store(mem, blk, arr))
	if es == SReal && x.eng.usedWf {
		x.wfAppendRule(s, old, Field(sv, 1), ln, arr, off, vals)
	}
	return Mk(SliceSort, blk, off, Arith("+", ln, IntLit(n)), Ite(inplace, cp, newCap))
}

// ---- math ----

func (x *Exec) uf(name string, res *Sort, args ...*Term) *Term {
	sorts := make([]*Sort, len(args))
	for i, a := range args {
		sorts[i] = a.S
	}
	declareUF(name, sorts, res)
	return App(name, res, args...)
}

func floorReal(v *Term) *Term { return App("to_real", SReal, App("to_int", SInt, v)) }

func (x *Exec) callMath(s *State, name string, args []*Term) ([]*Term, bool) {
	r := func(i int) *Term { return ToReal(args[i]) }
	zero := RealLitF(0)
	switch name {
	case "Abs":
		return []*Term{Ite(Cmp(">=", r(0), zero), r(0), Neg(r(0)))}, true
	case "Min":
		return []*Term{Ite(Cmp("<=", r(0), r(1)), r(0), r(1))}, true
	case "Max":
		return []*Term{Ite(Cmp(">=", r(0), r(1)), r(0), r(1))}, true
	case "Floor":
		return []*Term{floorReal(r(0))}, true
	case "Ceil":
		return []*Term{Neg(floorReal(Neg(r(0))))}, true
	case "Trunc":
		return []*Term{Ite(Cmp(">=", r(0), zero), floorReal(r(0)), Neg(floorReal(Neg(r(0)))))}, true
	case "Round":
		h := RealLit(big.NewRat(1, 2))
		return []*Term{Ite(Cmp(">=", r(0), zero), floorReal(Arith("+", r(0), h)), Neg(floorReal(Arith("+", Neg(r(0)), h))))}, true
	case "Sqrt":
		v := x.uf("go_sqrt", SReal, r(0))
		s.assume(Implies(Cmp(">=", r(0), zero), And(Cmp(">=", v, zero), Eq(Arith("*", v, v), r(0)))))
		return []*Term{v}, true
	case "Hypot":
		v := x.uf("go_hypot", SReal, r(0), r(1))
		s.assume(And(Cmp(">=", v, zero), Eq(Arith("*", v, v), Arith("+", Arith("*", r(0), r(0)), Arith("*", r(1), r(1))))))
		return []*Term{v}, true
	case "Cbrt":
		v := x.uf("go_cbrt", SReal, r(0))
		s.assume(Eq(Arith("*", v, Arith("*", v, v)), r(0)))
		return []*Term{v}, true
	case "Sin", "Cos":
		sn := x.uf("go_sin", SReal, r(0))
		cs := x.uf("go_cos", SReal, r(0))
		s.assume(Eq(Arith("+", Arith("*", sn, sn), Arith("*", cs, cs)), RealLitF(1)))
		s.assume(Implies(Eq(r(0), zero), And(Eq(sn, zero), Eq(cs, RealLitF(1)))))
		if name == "Sin" {
			return []*Term{sn}, true
		}
		return []*Term{cs}, true
	case "Sincos":
		sn := x.uf("go_sin", SReal, r(0))
		cs := x.uf("go_cos", SReal, r(0))
		s.assume(Eq(Arith("+", Arith("*", sn, sn), Arith("*", cs, cs)), RealLitF(1)))
		s.assume(Implies(Eq(r(0), zero), And(Eq(sn, zero), Eq(cs, RealLitF(1)))))
		return []*Term{sn, cs}, true
	case "Tan":
		return []*Term{x.uf("go_tan", SReal, r(0))}, true
	case "Atan2":
		// v = atan2(y, x): (x, y) = rad*(cos v, sin v) with rad = hypot(x, y)
		v := x.uf("go_atan2", SReal, r(0), r(1))
		s.assume(And(Cmp("<=", Neg(PI), v), Cmp("<=", v, PI)))
		// rad is the same term as math.Sqrt(x*x+y*y) in the code
		sq := Arith("+", Arith("*", r(1), r(1)), Arith("*", r(0), r(0)))
		rad := x.uf("go_sqrt", SReal, sq)
		sn := x.uf("go_sin", SReal, v)
		cs := x.uf("go_cos", SReal, v)
		s.assume(And(Cmp(">=", rad, zero),
			Eq(Arith("*", rad, rad), sq),
			Eq(Arith("*", rad, cs), r(1)), Eq(Arith("*", rad, sn), r(0)),
			Eq(Arith("+", Arith("*", sn, sn), Arith("*", cs, cs)), RealLitF(1))))
		return []*Term{v}, true
	case "Atan":
		v := x.uf("go_atan", SReal, r(0))
		s.assume(And(Cmp("<", Arith("/", Neg(PI), RealLitF(2)), v), Cmp("<", v, Arith("/", PI, RealLitF(2)))))
		return []*Term{v}, true
	case "Acos":
		v := x.uf("go_acos", SReal, r(0))
		s.assume(And(Cmp("<=", zero, v), Cmp("<=", v, PI)))
		return []*Term{v}, true
	case "Asin":
		v := x.uf("go_asin", SReal, r(0))
		return []*Term{v}, true
	case "Pow":
		if args[1].rat != nil && args[1].rat.IsInt() {
			n := args[1].rat.Num().Int64()
			if n >= 0 && n <= 4 {
				v := RealLitF(1)
				for i := int64(0); i < n; i++ {
					v = Arith("*", v, r(0))
				}
				return []*Term{v}, true
			}
		}
		return []*Term{x.uf("go_pow", SReal, r(0), r(1))}, true
	case "Exp", "Log", "Log10", "Log2", "Log1p", "Sinh", "Cosh", "Tanh":
		return []*Term{x.uf("go_"+strings.ToLower(name), SReal, r(0))}, true
	case "Mod":
		// r = x - y*trunc(x/y)
		q := x.freshVar("modq", SInt)
		res := x.freshVar("mod", SReal)
		ay := Ite(Cmp(">=", r(1), zero), r(1), Neg(r(1)))
		ar := Ite(Cmp(">=", res, zero), res, Neg(res))
		s.assume(Implies(Not(Eq(r(1), zero)), And(
			Eq(r(0), Arith("+", Arith("*", ToReal(q), r(1)), res)),
			Cmp("<", ar, ay),
			Implies(Cmp(">=", r(0), zero), Cmp(">=", res, zero)),
			Implies(Cmp("<=", r(0), zero), Cmp("<=", res, zero)))))
		return []*Term{res}, true
	case "Float64bits":
		if args[0].rat != nil {
			f, _ := args[0].rat.Float64()
			return []*Term{IntLitBig(new(big.Int).SetUint64(math.Float64bits(f)))}, true
		}
		return []*Term{x.uf("go_float64bits", SInt, r(0))}, true
	case "Copysign":
		a := Ite(Cmp(">=", r(0), zero), r(0), Neg(r(0)))
		return []*Term{Ite(Cmp(">=", r(1), zero), a, Neg(a))}, true
	case "Signbit":
		return []*Term{Cmp("<", r(0), zero)}, true
	case "IsNaN":
		return []*Term{Eq(r(0), NaN)}, true
	case "NaN":
		return []*Term{NaN}, true
	case "IsInf":
		x.abstract("math.IsInf (reals have no infinity: false)")
		return []*Term{False}, true
	case "Inf":
		x.abstract("math.Inf (large symbolic real)")
		big := Var("INF", SReal)
		if args[0].rat != nil && args[0].rat.Sign() < 0 {
			return []*Term{Neg(big)}, true
		}
		return []*Term{big}, true
	}
	return nil, false
}

// NaN is a distinguished real constant; arithmetic/comparison on it is NOT IEEE (documented assumption)
var NaN = Var("NaN", SReal)

// ---- function calls ----

func (x *Exec) evalArgs(s *State, call *ast.CallExpr, sig *types.Signature) []*Term {
	params := sig.Params()
	var args []*Term
	if len(call.Args) == 1 && params.Len() > 1 {
		// f(g()) with multi-value g
		return x.evalMulti(s, call.Args[0])
	}
	np := params.Len()
	for i, a := range call.Args {
		if sig.Variadic() && i >= np-1 {
			break
		}
		v := x.eval(s, a)
		if i < np {
			v = x.convertTo(s, v, x.typeOf(a), params.At(i).Type())
		}
		args = append(args, v)
	}
	if sig.Variadic() {
		vt := params.At(np - 1).Type().(*types.Slice)
		if call.Ellipsis != token.NoPos {
			args = append(args, x.eval(s, call.Args[np-1]))
		} else {
			extra := call.Args[np-1:]
			if len(extra) == 0 {
				args = append(args, x.zero(vt))
			} else {
				es := x.eng.tm.sortOf(vt.Elem())
				blk := x.allocBlock(s)
				arr := Select(x.memGet(s, es), blk)
				for i, a := range extra {
					v := x.convertTo(s, x.eval(s, a), x.typeOf(a), vt.Elem())
					arr = Store(arr, IntLit(int64(i)), x.fit(v, es))
				}
				x.heapSet(s, memName(es), Store(x.memGet(s, es), blk, arr))
				n := IntLit(int64(len(extra)))
				args = append(args, Mk(SliceSort, blk, IntLit(0), n, n))
			}
		}
	}
	return args
}

func (x *Exec) callFunc(s *State, fn *types.Func, call *ast.CallExpr) []*Term {
	sig := fn.Type().(*types.Signature)
	pkgPath := ""
	if fn.Pkg() != nil {
		pkgPath = fn.Pkg().Path()
	}
	if isSpecHelper(fn) {
		return x.callSpecHelper(s, fn, call)
	}
	// receiver
	var recv *Term
	var recvExpr ast.Expr
	if sig.Recv() != nil {
		if sel, ok := unparen(call.Fun).(*ast.SelectorExpr); ok {
			recvExpr = sel.X
			selinfo := x.selection(sel)
			if selinfo != nil && selinfo.Kind() == types.MethodVal {
				recv = x.evalReceiver(s, sel, selinfo, sig)
			} else if selinfo != nil && selinfo.Kind() == types.MethodExpr {
				recvExpr = nil
			}
		}
	}
	_ = recvExpr
	args := x.evalArgs(s, call, sig)
	if s.dead {
		return x.deadResults(call)
	}
	if pkgPath == "math" {
		if res, ok := x.callMath(s, fn.Name(), args); ok {
			return res
		}
	}
	if x.eng.funcs[fn.Origin()] == nil && x.dry == 0 {
		x.recordCall(s, fn, recv, call)
	}
	if res, ok := x.callLibrary(s, fn, recv, args, call); ok {
		return res
	}
	fi := x.eng.funcs[fn.Origin()]
	var ct *Contract
	if fi != nil {
		ct = x.eng.contracts[fi.Obj]
	}
	if ct != nil && x.frames[0].contract != nil && x.frames[0].contract.Unfold[fi.Key] && fi.Decl.Body != nil {
		ct = nil
	}
	if ct != nil && (ct.Opaque || ct.Trusted != "" || x.eng.modular(ct)) {
		return x.callModular(s, fi, ct, recv, args, call)
	}
	if fi != nil && fi.Decl.Body != nil && len(x.frames) < maxInlineDepth && !x.onStack(fi) {
		return x.inline(s, fi, recv, args, call)
	}
	// unknown or too deep: havoc
	if fi == nil {
		x.abstract("external call " + fn.FullName())
		if extCallPure(fn) {
			// determinism is assumed only for plain functions and for the read-only font tables; methods of
			// other external types may carry hidden state (strings.Builder, time.Time ...)
			if fn.Pkg().Path() == "time" || (sig.Recv() != nil && fn.Pkg().Path() != "github.com/tdewolff/font" && fn.Pkg().Path() != "image/color") {
				if sig.Recv() != nil {
					// ghost log: the order of calls on external stateful objects is observable (wroteSeq("@(*pkg.T).M", ...))
					s.log = append(s.log, "@"+fn.FullName())
				}
				return x.havocResults(s, call)
			}
			// deterministic: an uninterpreted function of receiver, arguments and the heap epoch
			as := []*Term{}
			if recv != nil {
				as = append(as, recv)
			}
			as = append(as, args...)
			if pp := fn.Pkg().Path(); pp == "github.com/tdewolff/font" || strings.HasPrefix(pp, "github.com/tdewolff/font/") || pp == "github.com/go-text/typesetting/language" {
				// font tables: not affected by stores into the module's string builders / interface arrays
				as = append(as, x.xepochOf(s))
			} else {
				as = append(as, x.epochOf(s))
			}
			var out []*Term
			for i := 0; i < sig.Results().Len(); i++ {
				rt := sig.Results().At(i).Type()
				v := x.uf(fmt.Sprintf("ext_%s_%d", sanitize(fn.FullName()), i), x.eng.tm.sortOf(rt), as...)
				s.assume(x.typeInv(s, v, rt, 0))
				out = append(out, v)
			}
			return out
		}
		if fn.Pkg() != nil && pureExternalPkgs[fn.Pkg().Path()] {
			// callback-taking function of a side-effect-free external package: it can reach the verified
			// module's memory only through its interface/function arguments
			var names []string
			if x.callbackWriteNames(call, func(n string) { names = append(names, n) }) {
				wfBefore := x.patherWf(s, call, sig)
				defer func() {
					for _, e := range wfBefore {
						a, o, n := x.seqOf(s, x.loadField(s, e.ref, e.si, e.fi))
						s.assume(Implies(And(Not(Eq(e.ref, IntLit(0))), e.was), x.mentionWf(s, a, o, n)))
					}
				}()
				for _, n := range names {
					if n == "$alloc" || n == "$balloc" {
						old := x.heapGet(s, n, SInt)
						x.havocHeap(s, n)
						s.assume(Cmp("<=", old, s.heap[n]))
						continue
					}
					x.havocHeap(s, n)
				}
				return x.havocResults(s, call)
			}
		}
	} else {
		x.abstract("call not inlined (depth/recursion) " + fn.FullName())
	}
	if x.mayTouchHeap(sig, recv) {
		x.havocAllHeap(s)
	}
	return x.havocResults(s, call)
}

func (x *Exec) mayTouchHeap(sig *types.Signature, recv *Term) bool {
	refy := func(t types.Type) bool {
		switch t.Underlying().(type) {
		case *types.Pointer, *types.Slice, *types.Map, *types.Interface, *types.Signature, *types.Chan:
			return true
		case *types.Struct:
			return true
		}
		return false
	}
	if sig.Recv() != nil && refy(sig.Recv().Type()) {
		return true
	}
	for i := 0; i < sig.Params().Len(); i++ {
		if refy(sig.Params().At(i).Type()) {
			return true
		}
	}
	return false
}

func (x *Exec) onStack(fi *FuncInfo) bool {
	for _, f := range x.frames {
		if f.fi == fi && f.inlined {
			return true
		}
	}
	// the top function calling itself
	return x.frames[0].fi == fi
}

// evalReceiver computes the receiver argument for a method call x.M()
func (x *Exec) evalReceiver(s *State, sel *ast.SelectorExpr, si *types.Selection, sig *types.Signature) *Term {
	base := x.eval(s, sel.X)
	bt := x.typeOf(sel.X)
	path := si.Index()
	// walk embedded fields (all but the last index which is the method)
	v := base
	t := bt
	if len(path) > 1 {
		v = x.selectPath(s, base, bt, path[:len(path)-1], sel.Pos())
		for _, i := range path[:len(path)-1] {
			if isPointer(t) {
				t = elemOfPointer(t)
			}
			t = x.eng.tm.structOf(t).fields[i].Type()
		}
	}
	wantPtr := isPointer(sig.Recv().Type())
	havePtr := isPointer(t)
	switch {
	case wantPtr == havePtr:
		return v
	case wantPtr && !havePtr:
		// implicit address-of an addressable value: copy to a fresh cell and (soundly for proofs) havoc the variable afterwards
		x.abstract("implicit &recv for pointer method on value " + exprString(sel.X))
		ref := x.allocRef(s)
		x.storeDeref(s, ref, t, v)
		x.pendingWriteBack = append(x.pendingWriteBack, writeBack{expr: sel.X, ref: ref, typ: t})
		return ref
	default:
		x.oblige(s, "nil", Not(Eq(v, IntLit(0))), sel.Pos(), "nil receiver "+exprString(sel.X))
		return x.loadDeref(s, v, elemOfPointer(t), sel.Pos())
	}
}

type writeBack struct {
	expr ast.Expr
	ref  *Term
	typ  types.Type
}

func (x *Exec) doWriteBacks(s *State, from int) {
	wbs := x.pendingWriteBack[from:]
	x.pendingWriteBack = x.pendingWriteBack[:from]
	for _, wb := range wbs {
		if s.dead {
			return
		}
		x.assign(s, wb.expr, x.loadDeref(s, wb.ref, wb.typ, wb.expr.Pos()))
	}
}

func (x *Exec) inline(s *State, fi *FuncInfo, recv *Term, args []*Term, call *ast.CallExpr) []*Term {
	sig := fi.Obj.Type().(*types.Signature)
	wbFrom := len(x.pendingWriteBack) - countWB(x, recv)
	f := &Frame{fi: fi, info: fi.Pkg.TypesInfo, inlined: true}
	// bind
	if fi.Decl.Recv != nil && len(fi.Decl.Recv.List) > 0 && len(fi.Decl.Recv.List[0].Names) > 0 && recv != nil {
		if obj := f.info.Defs[fi.Decl.Recv.List[0].Names[0]]; obj != nil {
			s.env[obj] = recv
		}
	}
	i := 0
	for _, fld := range fi.Decl.Type.Params.List {
		for _, nm := range fld.Names {
			if obj := f.info.Defs[nm]; obj != nil && i < len(args) {
				s.env[obj] = x.fit(args[i], x.eng.tm.sortOf(obj.Type()))
			}
			i++
		}
		if len(fld.Names) == 0 {
			i++
		}
	}
	if fi.Decl.Type.Results != nil {
		for _, fld := range fi.Decl.Type.Results.List {
			for _, nm := range fld.Names {
				if obj := f.info.Defs[nm]; obj != nil {
					s.env[obj] = x.zero(obj.Type())
					f.results = append(f.results, obj)
				}
			}
		}
	}
	savedClause := x.clauseInfo
	x.clauseInfo = nil
	x.frames = append(x.frames, f)
	base := s.clone()
	out := x.execBlock(s.clone(), fi.Decl.Body.List)
	if out != nil && !out.dead {
		// fall off the end (no results or named results)
		var vals []*Term
		for _, r := range f.results {
			vals = append(vals, out.env[r])
		}
		f.rets = append(f.rets, &RetState{s: out, vals: vals})
	}
	x.frames = x.frames[:len(x.frames)-1]
	x.clauseInfo = savedClause
	nres := sig.Results().Len()
	if len(f.rets) == 0 {
		s.dead = true
		s.assume(False)
		return x.deadResults(call)
	}
	// merge return states
	states := make([]*State, len(f.rets))
	for i, r := range f.rets {
		states[i] = r.s
	}
	var results []*Term
	if len(f.rets) == 1 {
		results = f.rets[0].vals
		*s = *f.rets[0].s
	} else {
		guards := make([]*Term, len(states))
		for i, st := range states {
			guards[i] = suffixGuard(base, st)
		}
		m := x.merge(base, states...)
		results = make([]*Term, nres)
		for k := 0; k < nres; k++ {
			v := f.rets[len(f.rets)-1].vals[k]
			for i := len(f.rets) - 2; i >= 0; i-- {
				v = Ite(guards[i], f.rets[i].vals[k], v)
			}
			results[k] = v
		}
		*s = *m
	}
	x.doWriteBacks(s, wbFrom)
	return results
}

func countWB(x *Exec, recv *Term) int {
	n := 0
	for _, wb := range x.pendingWriteBack {
		if wb.ref == recv {
			n++
		}
	}
	return n
}

func (x *Exec) inlineClosure(s *State, fl *ast.FuncLit, call *ast.CallExpr) []*Term {
	if len(x.frames) >= maxInlineDepth {
		x.abstract("closure call too deep")
		x.havocAllHeap(s)
		return x.havocResults(s, call)
	}
	cur := x.frame()
	f := &Frame{fi: cur.fi, info: cur.info, inlined: true, closures: cur.closures}
	// a pseudo FuncInfo is not needed: returns are collected in f.rets, results are unnamed or named
	var args []*Term
	for _, a := range call.Args {
		args = append(args, x.eval(s, a))
	}
	i := 0
	for _, fld := range fl.Type.Params.List {
		for _, nm := range fld.Names {
			if obj := cur.info.Defs[nm]; obj != nil && i < len(args) {
				s.env[obj] = x.fit(args[i], x.eng.tm.sortOf(obj.Type()))
			}
			i++
		}
	}
	if fl.Type.Results != nil {
		for _, fld := range fl.Type.Results.List {
			for _, nm := range fld.Names {
				if obj := cur.info.Defs[nm]; obj != nil {
					s.env[obj] = x.zero(obj.Type())
					f.results = append(f.results, obj)
				}
			}
		}
	}
	f.closureSig = x.typeOf(fl).(*types.Signature)
	x.frames = append(x.frames, f)
	base := s.clone()
	out := x.execBlock(s.clone(), fl.Body.List)
	if out != nil && !out.dead {
		var vals []*Term
		for _, r := range f.results {
			vals = append(vals, out.env[r])
		}
		f.rets = append(f.rets, &RetState{s: out, vals: vals})
	}
	x.frames = x.frames[:len(x.frames)-1]
	if len(f.rets) == 0 {
		s.dead = true
		s.assume(False)
		return x.deadResults(call)
	}
	nres := f.closureSig.Results().Len()
	if len(f.rets) == 1 {
		*s = *f.rets[0].s
		return f.rets[0].vals
	}
	states := make([]*State, len(f.rets))
	guards := make([]*Term, len(f.rets))
	for i, r := range f.rets {
		states[i] = r.s
		guards[i] = suffixGuard(base, r.s)
	}
	m := x.merge(base, states...)
	results := make([]*Term, nres)
	for k := 0; k < nres; k++ {
		v := f.rets[len(f.rets)-1].vals[k]
		for i := len(f.rets) - 2; i >= 0; i-- {
			v = Ite(guards[i], f.rets[i].vals[k], v)
		}
		results[k] = v
	}
	*s = *m
	return results
}

// ---- modular call ----

func (x *Exec) bindParams(env map[types.Object]*Term, fi *FuncInfo, recv *Term, args []*Term) {
	info := fi.Pkg.TypesInfo
	if fi.Decl.Recv != nil && len(fi.Decl.Recv.List) > 0 && len(fi.Decl.Recv.List[0].Names) > 0 && recv != nil {
		if obj := info.Defs[fi.Decl.Recv.List[0].Names[0]]; obj != nil {
			env[obj] = recv
		}
	}
	i := 0
	for _, fld := range fi.Decl.Type.Params.List {
		for _, nm := range fld.Names {
			if obj := info.Defs[nm]; obj != nil && i < len(args) {
				env[obj] = x.fit(args[i], x.eng.tm.sortOf(obj.Type()))
			}
			i++
		}
		if len(fld.Names) == 0 {
			i++
		}
	}
}

// bind result aliases for an ensures clause (FuncLit params) and named results
func (x *Exec) bindResults(env map[types.Object]*Term, fi *FuncInfo, c *Clause, vals []*Term) {
	if fl, ok := c.Expr.(*ast.FuncLit); ok {
		k := 0
		for _, fld := range fl.Type.Params.List {
			for _, nm := range fld.Names {
				obj := c.Info.Defs[nm]
				if obj == nil {
					continue
				}
				if nm.Name == "result" {
					if len(vals) > 0 {
						env[obj] = vals[0]
					}
					continue
				}
				if k < len(vals) {
					env[obj] = vals[k]
				}
				k++
			}
		}
	}
	info := fi.Pkg.TypesInfo
	if fi.Decl.Type.Results != nil {
		k := 0
		for _, fld := range fi.Decl.Type.Results.List {
			if len(fld.Names) == 0 {
				k++
				continue
			}
			for _, nm := range fld.Names {
				if obj := info.Defs[nm]; obj != nil && k < len(vals) {
					env[obj] = vals[k]
				}
				k++
			}
		}
	}
}

// evalClauseIn evaluates a requires/ensures clause in a given env over the heap of s
func (x *Exec) evalClauseIn(s *State, env map[types.Object]*Term, fi *FuncInfo, c *Clause, vals []*Term, oldState *State) *Term {
	saved := s.env
	e := make(map[types.Object]*Term, len(env)+4)
	for k, v := range env {
		e[k] = v
	}
	x.bindResults(e, fi, c, vals)
	s.env = e
	x.clauseDepth++
	defer func() { x.clauseDepth-- }()
	x.clauseInfo = append(x.clauseInfo, c.Info)
	x.oldStates = append(x.oldStates, oldState)
	// make the callee's package info visible for identifier resolution
	x.frames = append(x.frames, &Frame{fi: fi, info: fi.Pkg.TypesInfo, inlined: true})
	var body ast.Expr = c.Expr
	if fl, ok := c.Expr.(*ast.FuncLit); ok {
		body = fl.Body.List[0].(*ast.ReturnStmt).Results[0]
	}
	t := x.evalCond(s, body)
	x.frames = x.frames[:len(x.frames)-1]
	x.oldStates = x.oldStates[:len(x.oldStates)-1]
	x.clauseInfo = x.clauseInfo[:len(x.clauseInfo)-1]
	s.env = saved
	return t
}

func (x *Exec) callModular(s *State, fi *FuncInfo, ct *Contract, recv *Term, args []*Term, call *ast.CallExpr) []*Term {
	sig := fi.Obj.Type().(*types.Signature)
	env := map[types.Object]*Term{}
	x.bindParams(env, fi, recv, args)
	f0 := x.frames[0]
	if f0.counts == nil {
		f0.counts = map[string]int{}
	}
	f0.counts["call:"+fi.Key]++
	site := f0.counts["call:"+fi.Key]
	for _, rq := range ct.Requires {
		x.goalMode = true
		g := x.evalClauseIn(s, env, fi, rq, nil, s)
		x.goalMode = false
		x.obligeNamed(s, fmt.Sprintf("%s/call:%s#%d.requires#%d", x.top.Key, fi.Key, site, rq.Ord), "requires", g, x.pos(call.Pos()), rq.Text)
		s.assume(g)
	}
	loggedAt := -1
	if ct.Logged {
		s.log = append(s.log, "@"+fi.Key)
		// also in the ghost call log, with the argument terms (receiver first)
		rec := callRec{name: "@" + fi.Key}
		if recv != nil {
			rec.args = append(rec.args, recv)
			rec.lits = append(rec.lits, "")
		}
		for _, a := range args {
			rec.args = append(rec.args, a)
			rec.lits = append(rec.lits, "")
		}
		s.calls = append(s.calls, rec)
		loggedAt = len(s.calls) - 1
	}
	if !(ct.HasAssign && len(ct.Assigns) == 0) && !ct.Pure && !fi.pure {
		// the callee may call out of the module itself: what it called is unknown here
		s.calls = append(s.calls, callRec{name: "?", hide: x.eng.callsOf(fi)})
	}
	pre := s.clone()
	// frame
	x.applyAssigns(s, fi, ct, env, sig, recv)
	// results
	var vals []*Term
	pureVals := (ct.HasAssign && len(ct.Assigns) == 0) || ct.Pure
	// a callee that promises freshly allocated results returns different references on every call: its reference
	// results are not functions of the arguments (two identical calls would otherwise share one "fresh" reference)
	allocates := false
	for _, en := range ct.Ensures {
		if strings.Contains(strings.ReplaceAll(en.Text, " ", ""), "fresh(result") {
			allocates = true
		}
	}
	withEpoch := pureVals && !valueOnly(sig) && !ct.Pure
	for i := 0; i < sig.Results().Len(); i++ {
		rt := sig.Results().At(i).Type()
		if pureVals && !(allocates && !ct.Pure && !valueOnly(types.NewSignatureType(nil, nil, nil, types.NewTuple(sig.Results().At(i)), nil, false))) {
			// a function of its (value) arguments: the same call yields the same result
			var as []*Term
			if recv != nil {
				as = append(as, recv)
			}
			as = append(as, args...)
			if withEpoch {
				as = append(as, x.epochOf(s))
			}
			v := x.uf(fmt.Sprintf("fn_%s_%s_%d", fi.Pkg.Types.Name(), sanitize(fi.Key), i), x.eng.tm.sortOf(rt), as...)
			s.assume(x.typeInv(s, v, rt, 0))
			vals = append(vals, v)
			continue
		}
		vals = append(vals, x.havocValue(s, "r_"+fi.Obj.Name(), rt))
	}
	if loggedAt >= 0 && loggedAt < len(s.calls) {
		s.calls[loggedAt].res = vals
	}
	if ct.ResultPure != "" {
		for i := 0; i < sig.Results().Len(); i++ {
			if _, ok := sig.Results().At(i).Type().Underlying().(*types.Signature); ok {
				if x.pureFV == nil {
					x.pureFV = map[*Term]bool{}
				}
				x.pureFV[vals[i]] = true
				x.eng.usedTrusted[ct.Key+" (resultpure)"] = ct.ResultPure
			}
		}
	}
	for _, en := range ct.Ensures {
		if mentionsLogBuiltin(en.Text) {
			// clauses over the ghost logs speak about the CALLEE's log during its own execution; evaluated here they
			// would read the caller's log (and an unconditional one could make the caller vacuous): not assumed
			continue
		}
		t := x.evalClauseIn(s, env, fi, en, vals, pre)
		s.assume(t)
		// forall-introduction over ghost variables (directive `generalize`): the clause was proved with the ghost
		// variable an arbitrary constant that the callee cannot assign and no precondition mentions, so it holds
		// for every value
		for _, gv := range ct.Generalize {
			if !strings.Contains(en.Text, gv) {
				continue
			}
			name := "G_" + fi.Pkg.Types.Name() + "_" + gv
			g, ok := s.heap[name]
			if !ok {
				g = x.heapInit(name, nil)
			}
			if g == nil || g.K != TVar {
				continue
			}
			// the actual arguments must not depend on the ghost variable themselves
			dep := recv != nil && termMentions(recv, g)
			for _, a := range args {
				if a != nil && termMentions(a, g) {
					dep = true
				}
			}
			if dep {
				continue
			}
			bv := BoundVar(sanitizeSym(x.freshName(gv)), g.S)
			s.assume(Forall([]*Term{bv}, Substitute(t, map[*Term]*Term{g: bv})))
		}
	}
	if ct.Trusted != "" {
		x.eng.usedTrusted[ct.Key] = ct.Trusted
	}
	x.usedContracts[fi.Key] = true
	return vals
}

// applyAssigns havocs what the callee may write.
// assigns syntax: "p.d" (field d of object p), "mem(e)" (elements of slice e), "*" everything,
// "global(Name)". Absent clause: everything if the callee can reach the heap.
func (x *Exec) applyAssigns(s *State, fi *FuncInfo, ct *Contract, env map[types.Object]*Term, sig *types.Signature, recv *Term) {
	if !ct.HasAssign {
		if x.mayTouchHeap(sig, recv) {
			x.havocAllHeap(s)
		} else if !valueResults(sig) {
			// a callee that returns references may have allocated them: the allocation counters may grow (without
			// this, `ensures fresh(result)` would contradict the typing fact "result is allocated")
			for _, k := range []string{"$alloc", "$balloc"} {
				old := x.heapGet(s, k, SInt)
				x.havocHeap(s, k)
				s.assume(Cmp("<=", old, s.heap[k]))
			}
		}
		return
	}
	// allocation may always grow; a callee that writes nothing and neither takes nor returns references cannot
	// make an allocation of its own observable, so the counters are left alone (keeps real-arithmetic VCs pure)
	if len(ct.Assigns) == 0 && valueOnly(sig) && valueResults(sig) {
		return
	}
	for _, k := range []string{"$alloc", "$balloc"} {
		old := x.heapGet(s, k, SInt)
		x.havocHeap(s, k)
		s.assume(Cmp("<=", old, s.heap[k]))
	}
	// mem(e) targets are havoc'd twice: first for the value e has BEFORE the call (the callee may write the old
	// block and then re-point the header), then, after the field targets, for the new value of e
	isMem := func(e ast.Expr) bool {
		c, ok := e.(*ast.CallExpr)
		if !ok {
			return false
		}
		id, ok := c.Fun.(*ast.Ident)
		return ok && id.Name == "mem"
	}
	for i, a := range ct.Assigns {
		if a != "*" && isMem(ct.AssignsE[i]) {
			x.havocLoc(s, fi, ct, env, ct.AssignsE[i])
		}
	}
	for i, a := range ct.Assigns {
		if a == "*" {
			x.havocAllHeap(s)
			continue
		}
		if !isMem(ct.AssignsE[i]) {
			x.havocLoc(s, fi, ct, env, ct.AssignsE[i])
		}
	}
	for i, a := range ct.Assigns {
		if a != "*" && isMem(ct.AssignsE[i]) {
			x.havocLoc(s, fi, ct, env, ct.AssignsE[i])
		}
	}
}

func (x *Exec) havocLoc(s *State, fi *FuncInfo, ct *Contract, env map[types.Object]*Term, e ast.Expr) {
	saved := s.env
	s.env = env
	x.clauseInfo = append(x.clauseInfo, ct.AssignsI)
	x.frames = append(x.frames, &Frame{fi: fi, info: fi.Pkg.TypesInfo, inlined: true})
	x.dry++
	defer func() {
		x.dry--
		x.frames = x.frames[:len(x.frames)-1]
		x.clauseInfo = x.clauseInfo[:len(x.clauseInfo)-1]
		s.env = saved
	}()
	switch n := e.(type) {
	case *ast.CallExpr:
		if id, ok := n.Fun.(*ast.Ident); ok && id.Name == "mem" && len(n.Args) == 1 {
			sv := x.eval(s, n.Args[0])
			st, ok := x.typeOf(n.Args[0]).Underlying().(*types.Slice)
			if !ok {
				return
			}
			es := x.eng.tm.sortOf(st.Elem())
			mem := x.memGet(s, es)
			// only cells [off, off+cap) of the block may change
			na := x.freshVar("havoc_mem", ArrayOf(SInt, es))
			k := BoundVar(x.freshName("k"), SInt)
			old := Select(mem, Field(sv, 0))
			s.assume(Forall([]*Term{k}, Implies(Or(Cmp("<", k, Field(sv, 1)), Cmp(">=", k, Arith("+", Field(sv, 1), Field(sv, 3)))),
				Eq(Select(na, k), Select(old, k)))))
			x.heapSet(s, memName(es), Store(mem, Field(sv, 0), na))
			return
		}
	case *ast.SelectorExpr:
		sel := x.selection(n)
		if sel != nil && sel.Kind() == types.FieldVal {
			bt := x.typeOf(n.X)
			if isPointer(bt) && len(sel.Index()) == 1 {
				ref := x.eval(s, n.X)
				si := x.eng.tm.structOf(elemOfPointer(bt))
				i := sel.Index()[0]
				hn := fieldHeapName(si, i)
				h := x.heapGet(s, hn, ArrayOf(SInt, si.sort.Fields[i].S))
				nv := x.havocValue(s, "havoc_"+si.fields[i].Name(), si.fields[i].Type())
				x.heapSet(s, hn, Store(h, ref, nv))
				return
			}
		}
	case *ast.StarExpr:
		bt := x.typeOf(n.X)
		if isPointer(bt) && isStruct(elemOfPointer(bt)) {
			ref := x.eval(s, n.X)
			si := x.eng.tm.structOf(elemOfPointer(bt))
			for i := range si.fields {
				hn := fieldHeapName(si, i)
				h := x.heapGet(s, hn, ArrayOf(SInt, si.sort.Fields[i].S))
				nv := x.havocValue(s, "havoc_"+si.fields[i].Name(), si.fields[i].Type())
				x.heapSet(s, hn, Store(h, ref, nv))
			}
			return
		}
	case *ast.Ident:
		if obj, ok := x.objOf(n).(*types.Var); ok && x.isGlobal(obj) {
			x.heapSet(s, x.globalName(obj), x.havocValue(s, "havoc_"+obj.Name(), obj.Type()))
			return
		}
	}
	x.note("assigns clause %q not understood: havoc everything", exprString(e))
	x.havocAllHeap(s)
}

// ---- spec helpers ----

func (x *Exec) callSpecHelper(s *State, fn *types.Func, call *ast.CallExpr) []*Term {
	switch fn.Name() {
	case "old":
		if len(x.oldStates) == 0 {
			x.note("old() outside of a postcondition context")
			return []*Term{x.eval(s, call.Args[0])}
		}
		os := x.oldStates[len(x.oldStates)-1]
		// evaluate in the old heap with the current env (parameters denote entry values in clauses)
		if os.epoch == nil {
			os.epoch = x.freshVar("epoch", SInt)
		}
		if os.xepoch == nil {
			os.xepoch = x.freshVar("xepoch", SInt)
		}
		tmp := &State{env: s.env, heap: map[string]*Term{}, assumes: s.assumes, epoch: os.epoch, xepoch: os.xepoch}
		// parameters denote their entry values inside old()
		if ent := x.frames[0].entry; ent != nil && len(x.frames) == 1 || (ent != nil && x.inTopClause()) {
			ne := make(map[types.Object]*Term, len(s.env))
			for k, v := range s.env {
				ne[k] = v
			}
			for _, po := range x.frames[0].paramObjs {
				if v, ok := ent.env[po]; ok {
					ne[po] = v
				}
			}
			tmp.env = ne
		}
		for k, v := range os.heap {
			tmp.heap[k] = v
		}
		x.dry++
		v := x.eval(tmp, call.Args[0])
		x.dry--
		// heap arrays first touched inside old() denote the entry heap: share them
		for k, v := range tmp.heap {
			if _, ok := os.heap[k]; !ok {
				os.heap[k] = v
				if _, ok2 := s.heap[k]; !ok2 {
					s.heap[k] = v
				}
			}
		}
		s.assumes = tmp.assumes
		return []*Term{v}
	case "implies":
		x.goalMode = !x.goalMode
		a := x.evalCond(s, call.Args[0])
		x.goalMode = !x.goalMode
		c := s.clone()
		c.assume(a)
		base := len(c.assumes)
		x.dry++
		b := x.evalCond(c, call.Args[1])
		x.dry--
		for _, f := range c.assumes[base:] {
			s.assume(Implies(a, f))
		}
		return []*Term{Implies(a, b)}
	case "iff":
		return []*Term{Eq(x.evalCond(s, call.Args[0]), x.evalCond(s, call.Args[1]))}
	case "forallInt", "existsInt":
		lo := x.eval(s, call.Args[0])
		hi := x.eval(s, call.Args[1])
		fl := call.Args[2].(*ast.FuncLit)
		nm := fl.Type.Params.List[0].Names[0]
		obj := x.objOf(nm)
		bv := BoundVar(sanitizeSym(x.freshName(nm.Name)), SInt)
		saved, had := s.env[obj]
		s.env[obj] = bv
		body := fl.Body.List[0].(*ast.ReturnStmt).Results[0]
		c := s.clone()
		rng := And(Cmp("<=", lo, bv), Cmp("<", bv, hi))
		c.assume(rng)
		base := len(c.assumes)
		x.dry++
		b := x.evalCond(c, body)
		x.dry--
		// side facts generated inside the body (e.g. sqrt axioms) mention the bound variable: keep them inside
		side := And(c.assumes[base:]...)
		for k, v := range c.heap {
			if _, ok := s.heap[k]; !ok {
				s.heap[k] = v
			}
		}
		if had {
			s.env[obj] = saved
		} else {
			delete(s.env, obj)
		}
		if fn.Name() == "forallInt" {
			if x.goalMode {
				return []*Term{Forall([]*Term{bv}, Implies(And(rng, side), b))}
			}
			return []*Term{Forall([]*Term{bv}, Implies(rng, b))}
		}
		return []*Term{Exists([]*Term{bv}, And(rng, b))}
	case "forallReal", "existsReal":
		fl := call.Args[0].(*ast.FuncLit)
		nm := fl.Type.Params.List[0].Names[0]
		obj := x.objOf(nm)
		bv := BoundVar(sanitizeSym(x.freshName(nm.Name)), SReal)
		saved, had := s.env[obj]
		s.env[obj] = bv
		body := fl.Body.List[0].(*ast.ReturnStmt).Results[0]
		c := s.clone()
		base := len(c.assumes)
		x.dry++
		b := x.evalCond(c, body)
		x.dry--
		side := And(c.assumes[base:]...)
		if had {
			s.env[obj] = saved
		} else {
			delete(s.env, obj)
		}
		if fn.Name() == "forallReal" {
			return []*Term{Forall([]*Term{bv}, Implies(side, b))}
		}
		return []*Term{Exists([]*Term{bv}, And(side, b))}
	case "iterStart":
		// value of an expression at the start of the current iteration of loop <ord> (after the guard)
		ordT := x.eval(s, call.Args[0])
		ord := 0
		if ordT.rat != nil {
			ord = int(ordT.rat.Num().Int64())
		}
		var snap *State
		for i := len(x.frames) - 1; i >= 0; i-- {
			if st, ok := x.frames[i].iterStarts[ord]; ok {
				snap = st
				break
			}
		}
		if snap == nil {
			return []*Term{x.eval(s, call.Args[1])}
		}
		// environment of the snapshot plus variables bound since (quantifier variables of the enclosing clause)
		env := snap.env
		copied := false
		for o, t := range s.env {
			if _, ok := snap.env[o]; !ok {
				if !copied {
					env = make(map[types.Object]*Term, len(snap.env)+4)
					for o2, t2 := range snap.env {
						env[o2] = t2
					}
					copied = true
				}
				env[o] = t
			}
		}
		tmp := &State{env: env, heap: snap.heap, assumes: s.assumes, epoch: snap.epoch, xepoch: snap.xepoch}
		x.dry++
		v := x.eval(tmp, call.Args[1])
		x.dry--
		return []*Term{v}
	case "wroteSeq", "wroteLast":
		// ghost write log queries, evaluated on the concrete log of the current path
		var lits []string
		for _, a := range call.Args {
			tv, ok := x.tv(a)
			if !ok || tv.Value == nil || tv.Value.Kind() != constant.String {
				return []*Term{x.freshVar("wrote", SBool)}
			}
			lits = append(lits, constant.StringVal(tv.Value))
		}
		if s.logBad {
			x.note("ghost write log unknown after a merge: use split deep")
			return []*Term{x.freshVar("wrote", SBool)}
		}
		log := s.log
		found := false
		hasGap := false
		for _, e := range log {
			if e == logGap {
				hasGap = true
			}
		}
		if fn.Name() == "wroteLast" {
			if len(log) >= len(lits) {
				found = true
				for i, l := range lits {
					e := log[len(log)-len(lits)+i]
					if e == logGap {
						// the tail reaches into an unknown stretch
						return []*Term{x.freshVar("wrote", SBool)}
					}
					if e != l {
						found = false
					}
				}
			} else if hasGap {
				return []*Term{x.freshVar("wrote", SBool)}
			}
		} else {
			for i := 0; i+len(lits) <= len(log); i++ {
				ok := true
				for j, l := range lits {
					if log[i+j] != l {
						ok = false
					}
				}
				if ok {
					found = true
				}
			}
			if !found && hasGap {
				// absent from the known stretches, but an unknown stretch may contain it
				return []*Term{x.freshVar("wrote", SBool)}
			}
		}
		return []*Term{BoolLit(found)}
	case "callCount":
		// number of recorded calls whose name ends in the pattern; unknown when the log has an unknown prefix
		hasGap := s.callsOpen
		if tv, ok := x.tv(call.Args[0]); ok && tv.Value != nil && tv.Value.Kind() == constant.String {
			name := constant.StringVal(tv.Value)
			if i := strings.Index(name, "|"); i >= 0 {
				name = name[:i]
			}
			for i, c := range s.calls {
				// only gaps that may hide a call matching the pattern make the count unknown
				if c.name == "?" && gapMayHide(&s.calls[i], name) {
					hasGap = true
				}
			}
		} else {
			hasGap = true
		}
		if tv, ok := x.tv(call.Args[0]); ok && tv.Value != nil && tv.Value.Kind() == constant.String && !hasGap {
			n := 0
			for k := 0; ; k++ {
				if x.findCall(s, constant.StringVal(tv.Value), k) == nil {
					break
				}
				n++
			}
			return []*Term{IntLit(int64(n))}
		}
		return []*Term{x.freshVar("callCount", SInt)}
	case "callSeen":
		// does a call matching pat occur AFTER the last unknown stretch (gap) of the ghost call log that may hide such a
		// call? A definite true/false about the visible suffix only (calls inside or before a gap are not claimed).
		if tv, ok := x.tv(call.Args[0]); ok && tv.Value != nil && tv.Value.Kind() == constant.String {
			return []*Term{BoolLit(x.findCall(s, constant.StringVal(tv.Value), -1) != nil)}
		}
		return []*Term{x.freshVar("callSeen", SBool)}
	case "callResF", "callResI", "callResB":
		// i-th result of the k-th matching call of a `logged` module function
		want := map[string]*Sort{"callResF": SReal, "callResI": SInt, "callResB": SBool}[fn.Name()]
		tv, ok := x.tv(call.Args[0])
		kv, ok2 := x.tv(call.Args[1])
		iv, ok3 := x.tv(call.Args[2])
		if ok && ok2 && ok3 && tv.Value != nil && kv.Value != nil && iv.Value != nil && tv.Value.Kind() == constant.String {
			k, _ := constant.Int64Val(kv.Value)
			i, _ := constant.Int64Val(iv.Value)
			if c := x.findCall(s, constant.StringVal(tv.Value), int(k)); c != nil && int(i) < len(c.res) && i >= 0 && c.res[i] != nil {
				a := c.res[i]
				if a.S == want {
					return []*Term{a}
				}
				if want == SReal && a.S == SInt {
					return []*Term{ToReal(a)}
				}
			}
		}
		x.note("ghost call log: %s not resolvable here", exprString(call))
		return []*Term{x.freshVar("callRes", want)}
	case "callArgIs":
		// callArgIs(pat, k, i, v): the i-th argument of the k-th matching call is v (any type: slices compare as slice
		// headers, interfaces as (type, value) pairs, pointers as references)
		tv, ok := x.tv(call.Args[0])
		kv, ok2 := x.tv(call.Args[1])
		iv, ok3 := x.tv(call.Args[2])
		want := x.eval(s, call.Args[3])
		if ok && ok2 && ok3 && tv.Value != nil && kv.Value != nil && iv.Value != nil && tv.Value.Kind() == constant.String {
			k, _ := constant.Int64Val(kv.Value)
			i, _ := constant.Int64Val(iv.Value)
			if c := x.findCall(s, constant.StringVal(tv.Value), int(k)); c != nil && int(i) < len(c.args) && i >= 0 && c.args[i] != nil {
				a := c.args[i]
				if a.S == want.S {
					return []*Term{Eq(a, want)}
				}
				if a.S == SInt && want.S == SReal {
					return []*Term{Eq(ToReal(a), want)}
				}
				if a.S == SReal && want.S == SInt {
					return []*Term{Eq(a, ToReal(want))}
				}
				x.note("ghost call log: %s compares a %s argument with a %s value", exprString(call), a.S.Mangle(), want.S.Mangle())
				return []*Term{x.freshVar("callArgIs", SBool)}
			}
		}
		x.note("ghost call log: %s not resolvable here (unknown prefix, merge, or no such call)", exprString(call))
		return []*Term{x.freshVar("callArgIs", SBool)}
	case "callArgF", "callArgI", "callArgB":
		want := map[string]*Sort{"callArgF": SReal, "callArgI": SInt, "callArgB": SBool}[fn.Name()]
		tv, ok := x.tv(call.Args[0])
		kv, ok2 := x.tv(call.Args[1])
		iv, ok3 := x.tv(call.Args[2])
		if ok && ok2 && ok3 && tv.Value != nil && kv.Value != nil && iv.Value != nil && tv.Value.Kind() == constant.String {
			k, _ := constant.Int64Val(kv.Value)
			i, _ := constant.Int64Val(iv.Value)
			if c := x.findCall(s, constant.StringVal(tv.Value), int(k)); c != nil && int(i) < len(c.args) && i >= 0 && c.args[i] != nil {
				a := c.args[i]
				if a.S == want {
					return []*Term{a}
				}
				if want == SReal && a.S == SInt {
					return []*Term{ToReal(a)}
				}
			}
		}
		if os.Getenv("GOVC_TRACE") != "" {
			for _, c := range s.calls {
				fmt.Fprintf(os.Stderr, "calllog open=%v %s lits=%q nargs=%d\n", s.callsOpen, c.name, c.lits, len(c.args))
			}
		}
		x.note("ghost call log: %s not resolvable here (unknown prefix, merge, or no such call)", exprString(call))
		return []*Term{x.freshVar("callArg", want)}
	case "sharesMem":
		a := x.eval(s, call.Args[0])
		b := x.eval(s, call.Args[1])
		return []*Term{And(Eq(Field(a, 0), Field(b, 0)), Cmp(">", Field(a, 3), IntLit(0)), Cmp(">", Field(b, 3), IntLit(0)))}
	case "same":
		a := x.eval(s, call.Args[0])
		b := x.eval(s, call.Args[1])
		return []*Term{x.equalTerms(s, a, b, x.typeOf(call.Args[0]))}
	case "inPlace":
		// inPlace(a, b): slice a lives in the storage of slice b (same block, same start, within b's capacity)
		a := x.eval(s, call.Args[0])
		b := x.eval(s, call.Args[1])
		return []*Term{And(Eq(Field(a, 0), Field(b, 0)), Eq(Field(a, 1), Field(b, 1)), Cmp("<=", Field(a, 3), Field(b, 3)))}
	case "rangeIndex":
		ordT := x.eval(s, call.Args[0])
		if ordT.rat != nil {
			ord := int(ordT.rat.Num().Int64())
			for i := len(x.frames) - 1; i >= 0; i-- {
				if o, ok := x.frames[i].rangeIdx[ord]; ok {
					if v, ok := s.env[o]; ok {
						return []*Term{v}
					}
				}
			}
		}
		return []*Term{x.freshVar("rangeidx", SInt)}
	case "rangeSlice":
		// the value of the operand of range loop N (evaluated once, before the loop)
		ordT := x.eval(s, call.Args[0])
		if ordT.rat != nil {
			ord := int(ordT.rat.Num().Int64())
			for i := len(x.frames) - 1; i >= 0; i-- {
				if v, ok := x.frames[i].rangeColl[ord]; ok {
					return []*Term{v}
				}
			}
		}
		x.note("rangeSlice: no such range loop here")
		return []*Term{x.havocValue(s, "rangeSlice", x.typeOf(call))}
	case "ghostRank":
		// an arbitrary but fixed integer attached to a reference (well-founded orders on pointer structures)
		v := x.eval(s, call.Args[0])
		return []*Term{x.uf("ghost_rank", SInt, v)}
	case "allocd":
		// the reference (or slice block) was allocated before now
		v := x.eval(s, call.Args[0])
		if v.S == SliceSort {
			return []*Term{And(Cmp("<=", IntLit(0), Field(v, 0)), Cmp("<", Field(v, 0), x.heapGet(s, "$balloc", SInt)))}
		}
		return []*Term{And(Cmp("<=", IntLit(0), v), Cmp("<", v, x.heapGet(s, "$alloc", SInt)))}
	case "sameSlice", "sameSlice16":
		return []*Term{Eq(x.eval(s, call.Args[0]), x.eval(s, call.Args[1]))}
	case "wfd":
		return []*Term{x.specWfd(s, call)}
	case "bnd":
		return []*Term{x.specBnd(s, call)}
	case "assert":
		g := x.evalCond(s, call.Args[0])
		x.oblige(s, "assert", g, call.Pos(), exprString(call.Args[0]))
		s.assume(g)
		return nil
	case "assume":
		g := x.evalCond(s, call.Args[0])
		x.eng.assumeSites = append(x.eng.assumeSites, x.pos(call.Pos())+": "+exprString(call.Args[0]))
		s.assume(g)
		return nil
	case "fresh":
		// fresh(ref-or-slice): allocated after entry
		v := x.eval(s, call.Args[0])
		if len(x.oldStates) == 0 {
			return []*Term{True}
		}
		os := x.oldStates[len(x.oldStates)-1]
		if v.S == SliceSort {
			return []*Term{Or(Cmp(">=", Field(v, 0), x.heapGet(os, "$balloc", SInt)), Eq(Field(v, 3), IntLit(0)))}
		}
		return []*Term{Cmp(">=", v, x.heapGet(os, "$alloc", SInt))}
	}
	return nil
}

// valueOnly: receiver and parameters carry no references (results are then a function of the arguments)
// valueResults: no result of sig contains a reference (pointer, slice, map, interface, string, func, chan)
func valueResults(sig *types.Signature) bool {
	rs := make([]*types.Var, 0, sig.Results().Len())
	for i := 0; i < sig.Results().Len(); i++ {
		rs = append(rs, sig.Results().At(i))
	}
	return valueOnly(types.NewSignatureType(nil, nil, nil, types.NewTuple(rs...), nil, false))
}

func valueOnly(sig *types.Signature) bool {
	var ok func(t types.Type, d int) bool
	ok = func(t types.Type, d int) bool {
		if d > 4 {
			return false
		}
		switch u := t.Underlying().(type) {
		case *types.Basic:
			return u.Kind() != types.UnsafePointer && u.Info()&types.IsString == 0
		case *types.Struct:
			for i := 0; i < u.NumFields(); i++ {
				if !ok(u.Field(i).Type(), d+1) {
					return false
				}
			}
			return true
		case *types.Array:
			return ok(u.Elem(), d+1)
		}
		return false
	}
	if sig.Recv() != nil && !ok(sig.Recv().Type(), 0) {
		return false
	}
	for i := 0; i < sig.Params().Len(); i++ {
		if !ok(sig.Params().At(i).Type(), 0) {
			return false
		}
	}
	return true
}

// inTopClause: evaluating a clause of the function under verification (not of a callee)
func (x *Exec) inTopClause() bool {
	return len(x.oldStates) > 0 && x.oldStates[len(x.oldStates)-1] == x.frames[0].entry
}

// external packages whose functions do not write memory reachable from the verified code (assumed)
var pureExternalPkgs = map[string]bool{
	"time": true, "unicode/utf16": true, "unicode/utf8": true, "unicode": true, "strings": true, "strconv": true,
	"math": true, "math/bits": true, "errors": true, "path/filepath": true, "image/color": true,
	"github.com/tdewolff/font": true, "github.com/go-text/typesetting/language": true,
	// scan converters: their methods can only reach the scanner's own cells and target image
	"github.com/srwiley/scanx": true, "golang.org/x/image/vector": true, "golang.org/x/image/math/fixed": true,
}

// extCallPure: a function of a whitelisted external package that takes no callback (interface or function
// typed parameter through which it could call back into, and write, the verified module's objects)
func extCallPure(fn *types.Func) bool {
	if fn.Pkg() == nil || !pureExternalPkgs[fn.Pkg().Path()] {
		return false
	}
	sig, ok := fn.Type().(*types.Signature)
	if !ok {
		return false
	}
	for i := 0; i < sig.Params().Len(); i++ {
		switch sig.Params().At(i).Type().Underlying().(type) {
		case *types.Interface, *types.Signature:
			return false
		}
	}
	return true
}

// callbackWriteNames: heaps an external callback-taking call may write: for every interface-typed parameter
// whose argument is statically a pointer to a struct of the verified module, the fields of that struct type and
// the memories of its slice-typed fields. False when some callback argument's target is not known statically.
func (x *Exec) callbackWriteNames(call *ast.CallExpr, add func(string)) bool {
	fn, _ := x.calleeObj(call).(*types.Func)
	if fn == nil {
		return false
	}
	sig := fn.Type().(*types.Signature)
	for i, a := range call.Args {
		var pt types.Type
		if i < sig.Params().Len() {
			pt = sig.Params().At(i).Type()
		} else if sig.Variadic() {
			pt = sig.Params().At(sig.Params().Len() - 1).Type()
		}
		if pt == nil {
			return false
		}
		switch pt.Underlying().(type) {
		case *types.Signature:
			return false
		case *types.Interface:
			at := x.typeOf(a)
			ptr, ok := at.Underlying().(*types.Pointer)
			if !ok || !isStruct(ptr.Elem()) {
				return false
			}
			si := x.eng.tm.structOf(ptr.Elem())
			for j, f := range si.fields {
				add(fieldHeapName(si, j))
				if st, ok := f.Type().Underlying().(*types.Slice); ok {
					add(memName(x.eng.tm.sortOf(st.Elem())))
				}
			}
			add("$alloc")
			add("$balloc")
		}
	}
	return true
}

type patherArg struct {
	ref *Term
	si  *structInfo
	fi  int
	was *Term // wf(p) before the call
}

// patherWf: for *canvas.Path arguments passed as an interface whose method set is a subset of the path builders
// {MoveTo, LineTo, QuadTo, CubeTo, ArcTo, Close}: the external callee can reach the path only through those methods
// (the field d is unexported), each of which is proved to preserve well-formedness, so wf before implies wf after
// (induction over the callbacks; listed in the trusted base as "callback induction").
func (x *Exec) patherWf(s *State, call *ast.CallExpr, sig *types.Signature) []patherArg {
	var out []patherArg
	for i, a := range call.Args {
		if i >= sig.Params().Len() {
			break
		}
		it, ok := sig.Params().At(i).Type().Underlying().(*types.Interface)
		if !ok {
			continue
		}
		okSet := it.NumMethods() > 0
		for j := 0; j < it.NumMethods(); j++ {
			switch it.Method(j).Name() {
			case "MoveTo", "LineTo", "QuadTo", "CubeTo", "ArcTo", "Close":
			default:
				okSet = false
			}
		}
		ptr, isPtr := x.typeOf(a).Underlying().(*types.Pointer)
		if !okSet || !isPtr {
			continue
		}
		named, _ := ptr.Elem().(*types.Named)
		if named == nil || named.Obj().Name() != "Path" || named.Obj().Pkg() == nil || named.Obj().Pkg().Name() != "canvas" {
			continue
		}
		st := x.eng.tm.structOf(named)
		fidx := -1
		for k, f := range st.fields {
			if f.Name() == "d" {
				fidx = k
			}
		}
		if fidx < 0 {
			continue
		}
		ref := x.eval(s, a)
		aa, oo, nn := x.seqOf(s, x.loadField(s, ref, st, fidx))
		was := x.mentionWf(s, aa, oo, nn)
		libUsed["callback induction"] = "an external callee that receives a *Path only as an interface of builder methods (MoveTo/LineTo/QuadTo/CubeTo/ArcTo/Close, each proved to preserve wf) leaves it well-formed"
		out = append(out, patherArg{ref: ref, si: st, fi: fidx, was: was})
	}
	return out
}

// recordCall appends a call into code outside the verified module to the ghost call log (receiver first)
func (x *Exec) recordCall(s *State, fn *types.Func, recv *Term, call *ast.CallExpr) {
	rec := callRec{name: fn.FullName()}
	if recv != nil {
		rec.args = append(rec.args, recv)
		rec.lits = append(rec.lits, "")
	}
	x.dry++
	for _, a := range call.Args {
		var t *Term
		func() {
			defer func() {
				if recover() != nil {
					t = nil
				}
			}()
			t = x.eval(s, a)
		}()
		lit := ""
		if tv, ok := x.tv(a); ok && tv.Value != nil && tv.Value.Kind() == constant.String {
			lit = constant.StringVal(tv.Value)
		}
		rec.args = append(rec.args, t)
		rec.lits = append(rec.lits, lit)
	}
	x.dry--
	s.calls = append(s.calls, rec)
}

// findCall resolves (name suffix [| literal string argument], k) in the ghost call log: k >= 0 counts from the start
// (only when the log has no unknown prefix), k < 0 from the end
func (x *Exec) findCall(s *State, pat string, k int) *callRec {
	name, lit := pat, ""
	if i := strings.Index(pat, "|"); i >= 0 {
		name, lit = pat[:i], pat[i+1:]
	}
	var idx []int
	firstGap, lastGap := -1, -1
	for i, c := range s.calls {
		if c.name == "?" {
			// a gap caused by a modular callee hides calls to the logged module function "@Key" only if that
			// callee may (transitively) call it
			if !gapMayHide(&s.calls[i], name) {
				continue
			}
			if firstGap < 0 {
				firstGap = i
			}
			lastGap = i
			continue
		}
		if !strings.HasSuffix(c.name, name) {
			continue
		}
		if lit != "" {
			ok := false
			for _, l := range c.lits {
				if l == lit {
					ok = true
				}
			}
			if !ok {
				continue
			}
		}
		idx = append(idx, i)
	}
	if k >= 0 {
		// valid while no unknown gap precedes the k-th match
		if s.callsOpen || k >= len(idx) || (firstGap >= 0 && firstGap < idx[k]) {
			return nil
		}
		return &s.calls[idx[k]]
	}
	// from the end: valid while no unknown gap follows the match
	if -k > len(idx) || idx[len(idx)+k] < lastGap {
		return nil
	}
	return &s.calls[idx[len(idx)+k]]
}

func (x *Exec) callPureInterface(s *State, o *types.Func, sig *types.Signature, call *ast.CallExpr) ([]*Term, bool) {
	if o.Pkg() == nil || !strings.Contains(o.Pkg().Path(), "tdewolff/canvas") {
		return nil, false
	}
	it, ok := sig.Recv().Type().Underlying().(*types.Interface)
	if !ok {
		return nil, false
	}
	impls := 0
	for _, fi := range x.eng.funcs {
		if fi.Obj.Name() != o.Name() {
			continue
		}
		fs, ok := fi.Obj.Type().(*types.Signature)
		if !ok || fs.Recv() == nil {
			continue
		}
		rt := fs.Recv().Type()
		if !types.Implements(rt, it) {
			if p, ok := rt.(*types.Pointer); !ok || !types.Implements(p, it) {
				continue
			}
		}
		impls++
		if !fi.pure {
			return nil, false
		}
	}
	if impls == 0 {
		return nil, false
	}
	sel, ok := unparen(call.Fun).(*ast.SelectorExpr)
	if !ok {
		return nil, false
	}
	as := []*Term{x.eval(s, sel.X)}
	as = append(as, x.evalArgs(s, call, sig)...)
	as = append(as, x.epochOf(s))
	x.eng.usedTrusted["interface "+o.FullName()] = "every implementation in the module is side-effect free (purity analysis); implementations outside the module are not considered"
	var out []*Term
	for i := 0; i < sig.Results().Len(); i++ {
		rt := sig.Results().At(i).Type()
		v := x.uf(fmt.Sprintf("imeth_%s_%d", sanitize(o.FullName()), i), x.eng.tm.sortOf(rt), as...)
		s.assume(x.typeInv(s, v, rt, 0))
		out = append(out, v)
	}
	return out, true
}

// callStatic: call of a known function with an already evaluated receiver
func (x *Exec) callStatic(s *State, fi *FuncInfo, recv *Term, call *ast.CallExpr) []*Term {
	sig := fi.Obj.Type().(*types.Signature)
	args := x.evalArgs(s, call, sig)
	if s.dead {
		return x.deadResults(call)
	}
	ct := x.eng.contracts[fi.Obj]
	if ct != nil && x.frames[0].contract != nil && x.frames[0].contract.Unfold[fi.Key] && fi.Decl.Body != nil {
		ct = nil
	}
	if ct != nil && (ct.Opaque || ct.Trusted != "" || x.eng.modular(ct)) {
		return x.callModular(s, fi, ct, recv, args, call)
	}
	if fi.Decl.Body != nil && len(x.frames) < maxInlineDepth && !x.onStack(fi) {
		return x.inline(s, fi, recv, args, call)
	}
	x.havocAllHeap(s)
	return x.havocResults(s, call)
}

// termMentions: does t contain the term v?
func termMentions(t, v *Term) bool {
	seen := map[*Term]bool{}
	var rec func(t *Term) bool
	rec = func(t *Term) bool {
		if t == v {
			return true
		}
		if seen[t] {
			return false
		}
		seen[t] = true
		for _, a := range t.Args {
			if rec(a) {
				return true
			}
		}
		return false
	}
	return rec(t)
}

func mentionsLogBuiltin(text string) bool {
	for _, n := range []string{"wroteSeq(", "wroteLast(", "callCount(", "callArgF(", "callArgI(", "callArgB(", "callArgIs(", "callResF(", "callResI(", "callResB(", "callSeen("} {
		if strings.Contains(text, n) {
			return true
		}
	}
	return false
}

func isByteSlice(t types.Type) bool {
	st, ok := t.Underlying().(*types.Slice)
	if !ok {
		return false
	}
	b, ok := st.Elem().Underlying().(*types.Basic)
	return ok && (b.Kind() == types.Uint8 || b.Kind() == types.Byte)
}
