package main

// Assumed contracts for library functions (listed in evidence as trusted).

import (
	"go/ast"
	"go/types"
)

var libUsed = map[string]string{}

func (x *Exec) callLibrary(s *State, fn *types.Func, recv *Term, args []*Term, call *ast.CallExpr) ([]*Term, bool) {
	if fn.Pkg() == nil {
		return nil, false
	}
	full := fn.FullName()
	switch full {
	case "sort.Float64s", "sort.Ints", "sort.Strings":
		// sorts in place: contents of the block become an arbitrary (sorted) permutation: havoc the cells of the slice
		libUsed[full] = "sorts its argument in place (modelled: cells havoc'd, sortedness assumed)"
		sv := args[0]
		es := SReal
		if full == "sort.Ints" {
			es = SInt
		} else if full == "sort.Strings" {
			es = StrSort
		}
		mem := x.memGet(s, es)
		na := x.freshVar("sorted", ArrayOf(SInt, es))
		k := BoundVar(x.freshName("k"), SInt)
		old := Select(mem, Field(sv, 0))
		lo, hi := Field(sv, 1), Arith("+", Field(sv, 1), Field(sv, 2))
		s.assume(Forall([]*Term{k}, Implies(Or(Cmp("<", k, lo), Cmp(">=", k, hi)), Eq(Select(na, k), Select(old, k)))))
		if es != StrSort {
			j := BoundVar(x.freshName("j"), SInt)
			s.assume(Forall([]*Term{j}, Implies(And(Cmp("<=", lo, j), Cmp("<", Arith("+", j, IntLit(1)), hi)),
				Cmp("<=", Select(na, j), Select(na, Arith("+", j, IntLit(1)))))))
		}
		x.heapSet(s, memName(es), Store(mem, Field(sv, 0), na))
		return nil, true
	}
	return nil, false
}
