package main

// Assumed contracts for library functions (listed in evidence as trusted).

import (
	"fmt"
	"strings"
	"go/ast"
	"go/constant"
	"go/types"
)

var libUsed = map[string]string{}

// library functions that write nothing reachable from the verified code
var libPure = map[string]bool{
	"(*sync.Pool).Put": true, "(image.Image).Bounds": true, "(image/draw.Image).Bounds": true, "(golang.org/x/image/draw.Image).Bounds": true,
	"(image.Rectangle).Size": true, "(image.Rectangle).Dx": true, "(image.Rectangle).Dy": true,
	"fmt.Fprintf": true, "fmt.Fprint": true, "fmt.Fprintln": true, "(io.Writer).Write": true,
	"(*bytes.Buffer).Write": true, "(*bytes.Buffer).WriteString": true, "(*strings.Builder).WriteString": true, "(*bytes.Buffer).WriteByte": true,
	"(image/color.Model).Convert": true, "(image.Image).ColorModel": true, "(image/draw.Image).ColorModel": true, "(golang.org/x/image/draw.Image).ColorModel": true,
	"(image.Image).At": true, "(image/draw.Image).At": true, "(golang.org/x/image/draw.Image).At": true, "(image/color.Color).RGBA": true,
	"(*github.com/srwiley/scanx.Scanner).SetColor": true,
	"github.com/tdewolff/parse/v2.Dimension": true, "github.com/tdewolff/parse/v2.Number": true, "github.com/tdewolff/parse/v2.NewErrorLexer": true,
	"fmt.Println": true, "fmt.Printf": true, "fmt.Print": true, "log.Println": true, "log.Printf": true,
	"(*bytes.Buffer).Bytes": true, "(*bytes.Buffer).String": true, "(*bytes.Buffer).Len": true, "(*strings.Builder).String": true, "(*strings.Builder).Len": true,
	"fmt.Errorf": true, "fmt.Sprintf": true, "fmt.Sprint": true, "fmt.Sprintln": true, "errors.New": true,
	"github.com/tdewolff/parse/v2/strconv.ParseFloat": true, "github.com/tdewolff/parse/v2/strconv.ParseInt": true,
	"github.com/tdewolff/parse/v2/strconv.ParseUint": true,
	"image/jpeg.Encode": true, "image/png.Encode": true, "(image.Point).Eq": true,
	"(*github.com/tdewolff/parse/v2/css.Parser).Next": true, "(*github.com/tdewolff/parse/v2/css.Parser).Values": true,
	"github.com/tdewolff/parse/v2/css.NewParser": true, "github.com/tdewolff/parse/v2.NewInputBytes": true, "github.com/tdewolff/parse/v2.NewInput": true,
	"(*strings.Builder).Write": true,
}

func (x *Exec) callLibrary(s *State, fn *types.Func, recv *Term, args []*Term, call *ast.CallExpr) ([]*Term, bool) {
	if fn.Pkg() == nil {
		return nil, false
	}
	full := fn.FullName()
	switch full {
	case "github.com/tdewolff/parse/v2/strconv.ParseFloat", "github.com/tdewolff/parse/v2/strconv.ParseInt", "github.com/tdewolff/parse/v2/strconv.ParseUint":
		libUsed[full] = "returns (value, n) with 0 <= n <= len(b): the number of bytes consumed (assumed)"
		v := x.havocResults(s, call)
		if len(v) == 2 {
			s.assume(And(Cmp("<=", IntLit(0), v[1]), Cmp("<=", v[1], Field(args[0], 2))))
		}
		return v, true
	case "strings.HasSuffix", "strings.HasPrefix":
		// exact when the affix is a literal
		if n, ok := litLen(args[1]); ok && n <= 16 {
			libUsed[full] = "exact for a literal affix"
			str := args[0]
			cs := []*Term{Cmp(">=", Field(str, 2), IntLit(int64(n)))}
			for i := 0; i < n; i++ {
				var idx *Term
				if full == "strings.HasSuffix" {
					idx = Arith("+", Arith("-", Field(str, 2), IntLit(int64(n))), IntLit(int64(i)))
				} else {
					idx = IntLit(int64(i))
				}
				cs = append(cs, Eq(x.strByte(str, idx), x.strByte(args[1], IntLit(int64(i)))))
			}
			return []*Term{And(cs...)}, true
		}
		return nil, false
	case "(image.Rectangle).Size", "(image.Rectangle).Dx", "(image.Rectangle).Dy":
		libUsed[full] = "exact: Max - Min per axis"
		r := recv
		if r == nil && len(args) > 0 {
			r = args[0]
		}
		min, max := Field(r, 0), Field(r, 1)
		dx := Arith("-", Field(max, 0), Field(min, 0))
		dy := Arith("-", Field(max, 1), Field(min, 1))
		switch fn.Name() {
		case "Dx":
			return []*Term{dx}, true
		case "Dy":
			return []*Term{dy}, true
		}
		return []*Term{Mk(min.S, dx, dy)}, true
	case "(image.Image).Bounds", "(image/draw.Image).Bounds", "(golang.org/x/image/draw.Image).Bounds":
		libUsed[full] = "pure query: a function of the image value (an image's bounds never change after its creation)"
		t := x.typeOf(call)
		v := x.uf("ext_Bounds", x.eng.tm.sortOf(t), recv)
		return []*Term{v}, true
	case "(*sync.Pool).Get":
		// a recycled or new object: a reference that no live structure points to (no use after Put: assumed),
		// whose fields hold arbitrary values
		libUsed[full] = "returns an object that is not referenced by any live structure; its fields hold arbitrary (recycled) values; the dynamic type is the one asserted at the call site"
		ref := x.allocRef(s)
		x.poolRefs = append(x.poolRefs, ref)
		return []*Term{Mk(IfaceSort, x.freshVar("pooltag", SInt), ref)}, true
	case "(*sync.Pool).Put":
		libUsed[full] = "no effect on the verified state"
		return nil, true
	case "(*bytes.Buffer).Write":
		libUsed[full] = "returns (n, err) with n >= 0; literal arguments are recorded in the ghost write log"
		entry := "?"
		if len(call.Args) == 1 {
			if conv, ok := unparen(call.Args[0]).(*ast.CallExpr); ok && len(conv.Args) == 1 {
				if tv, ok := x.tv(conv.Args[0]); ok && tv.Value != nil && tv.Value.Kind() == constant.String {
					entry = constant.StringVal(tv.Value)
				}
			}
		}
		s.log = append(s.log, entry)
		v := x.havocResults(s, call)
		if len(v) >= 1 && v[0].S == SInt {
			s.assume(Cmp("<=", IntLit(0), v[0]))
		}
		return v, true
	case "fmt.Fprintf", "fmt.Fprint", "fmt.Fprintln", "(io.Writer).Write", "(*bytes.Buffer).WriteString", "(*strings.Builder).WriteString", "(*bytes.Buffer).WriteByte":
		libUsed[full] = "returns (n, err) with n >= 0 bytes written; writes nothing reachable from the verified state; literal output is recorded in the ghost write log"
		// ghost write log: a literal []byte("..") / string argument, or a verb-free literal format; anything else is an
		// unknown entry (it still separates its neighbours)
		entry := "?"
		argi := 1
		if full == "(io.Writer).Write" || strings.HasPrefix(full, "(*") {
			argi = 0
		}
		if argi < len(call.Args) {
			a := unparen(call.Args[argi])
			if conv, ok := a.(*ast.CallExpr); ok && len(conv.Args) == 1 {
				if tv, ok := x.tv(conv.Fun); ok && tv.IsType() {
					a = unparen(conv.Args[0])
				}
			}
			if tv, ok := x.tv(a); ok && tv.Value != nil && tv.Value.Kind() == constant.String {
				lit := constant.StringVal(tv.Value)
				entry = lit // a format with verbs is recorded as the format itself
			}
		}
		if full != "(*bytes.Buffer).WriteByte" || true {
			s.log = append(s.log, entry)
		}
		v := x.havocResults(s, call)
		if len(v) >= 1 && v[0].S == SInt {
			s.assume(Cmp("<=", IntLit(0), v[0]))
		}
		return v, true
	case "(*github.com/tdewolff/parse/v2/css.Parser).Next", "(*github.com/tdewolff/parse/v2/css.Parser).Values",
		"github.com/tdewolff/parse/v2/css.NewParser", "github.com/tdewolff/parse/v2.NewInputBytes", "github.com/tdewolff/parse/v2.NewInput":
		libUsed[full] = "CSS tokenizer: a stateful reader over its own input buffer; results are arbitrary (no determinism assumed), nothing of the verified state is written (the input bytes handed to NewInputBytes are treated as owned by the parser)"
		return x.havocResults(s, call), true
	case "(*strings.Builder).Write":
		libUsed[full] = "returns (n, err) with n >= 0; writes nothing reachable from the verified state"
		s.log = append(s.log, "?")
		v := x.havocResults(s, call)
		if len(v) >= 1 && v[0].S == SInt {
			s.assume(Cmp("<=", IntLit(0), v[0]))
		}
		return v, true
	case "(image.Point).Eq":
		libUsed[full] = "exact: both coordinates equal"
		r := recv
		a := args
		if r == nil && len(a) > 0 {
			r, a = a[0], a[1:]
		}
		if r != nil && len(a) == 1 && r.S == a[0].S {
			return []*Term{Eq(r, a[0])}, true
		}
		return nil, false
	case "image/jpeg.Encode", "image/png.Encode":
		libUsed[full] = "reads the image (At/Bounds/ColorModel are pure queries) and writes only through its io.Writer argument, which like fmt.Fprintf reaches nothing of the verified state; returns an arbitrary error"
		s.log = append(s.log, "?")
		return x.havocResults(s, call), true
	case "fmt.Errorf", "errors.New":
		libUsed[full] = "returns a non-nil error"
		e := x.freshVar("err", IfaceSort)
		s.assume(Not(Eq(Field(e, 0), IntLit(0))))
		return []*Term{e}, true
	case "(image/color.Model).Convert", "(image.Image).ColorModel", "(image/draw.Image).ColorModel", "(golang.org/x/image/draw.Image).ColorModel",
		"(image.Image).At", "(image/draw.Image).At", "(golang.org/x/image/draw.Image).At", "(image/color.Color).RGBA":
		libUsed[full] = "read-only query of an image / colour value: returns some value, writes nothing"
		if full == "(image/color.Color).RGBA" && recv != nil {
			// a colour's components are a function of the colour value
			var out []*Term
			for i := 0; i < 4; i++ {
				v := x.uf(fmt.Sprintf("ext_Color_RGBA_%d", i), SInt, recv)
				s.assume(And(Cmp("<=", IntLit(0), v), Cmp("<=", v, IntLit(65535))))
				out = append(out, v)
			}
			return out, true
		}
		return x.havocResults(s, call), true
	case "github.com/tdewolff/parse/v2.Dimension":
		libUsed[full] = "returns (n, m): the lengths of the number and of the unit at the start of b, 0 <= n, 0 <= m, n+m <= len(b) (assumed); writes nothing"
		v := x.havocResults(s, call)
		if len(v) == 2 {
			s.assume(And(Cmp("<=", IntLit(0), v[0]), Cmp("<=", IntLit(0), v[1]), Cmp("<=", Arith("+", v[0], v[1]), Field(args[0], 2))))
		}
		return v, true
	case "github.com/tdewolff/parse/v2.Number":
		libUsed[full] = "returns the length of the number at the start of b, 0 <= n <= len(b) (assumed); writes nothing"
		v := x.havocResults(s, call)
		if len(v) == 1 {
			s.assume(And(Cmp("<=", IntLit(0), v[0]), Cmp("<=", v[0], Field(args[0], 2))))
		}
		return v, true
	case "github.com/tdewolff/parse/v2.NewErrorLexer":
		libUsed[full] = "builds an error value from the reader's content: writes nothing of the verified module"
		return x.havocResults(s, call), true
	case "(*github.com/srwiley/scanx.Scanner).SetColor":
		libUsed[full] = "stores the colour (or colour function) in the scanner: writes nothing of the verified module"
		s.log = append(s.log, "@"+full)
		return x.havocResults(s, call), true
	case "fmt.Println", "fmt.Printf", "fmt.Print", "log.Println", "log.Printf":
		libUsed[full] = "writes to the process's standard streams only: nothing reachable from the verified state"
		return x.havocResults(s, call), true
	case "(*bytes.Buffer).Bytes", "(*bytes.Buffer).String", "(*bytes.Buffer).Len", "(*strings.Builder).String", "(*strings.Builder).Len":
		libUsed[full] = "read-only query of the buffer: returns some value, writes nothing"
		v := x.havocResults(s, call)
		if len(v) == 1 && v[0].S == SInt {
			s.assume(Cmp("<=", IntLit(0), v[0]))
		}
		return v, true
	case "fmt.Sprintf", "fmt.Sprint", "fmt.Sprintln":
		libUsed[full] = "returns some string"
		return x.havocResults(s, call), true
	case "sort.Float64s", "sort.Ints", "sort.Strings":
		// sorts in place: contents of the block become an arbitrary (sorted) permutation: havoc the cells of the slice
		libUsed[full] = "sorts its argument in place (modelled: cells havoc'd, sortedness assumed)"
		sv := args[0]
		es := SReal
		if full == "sort.Ints" {
			es = SInt
		} else if full == "sort.Strings" {
			es = StrSort
		}
		mem := x.memGet(s, es)
		na := x.freshVar("sorted", ArrayOf(SInt, es))
		k := BoundVar(x.freshName("k"), SInt)
		old := Select(mem, Field(sv, 0))
		lo, hi := Field(sv, 1), Arith("+", Field(sv, 1), Field(sv, 2))
		s.assume(Forall([]*Term{k}, Implies(Or(Cmp("<", k, lo), Cmp(">=", k, hi)), Eq(Select(na, k), Select(old, k)))))
		if es != StrSort {
			j := BoundVar(x.freshName("j"), SInt)
			s.assume(Forall([]*Term{j}, Implies(And(Cmp("<=", lo, j), Cmp("<", Arith("+", j, IntLit(1)), hi)),
				Cmp("<=", Select(na, j), Select(na, Arith("+", j, IntLit(1)))))))
		}
		x.heapSet(s, memName(es), Store(mem, Field(sv, 0), na))
		return nil, true
	}
	return nil, false
}
