package main

// Replay of solver counterexamples against the real code: the model is turned into Go
// literals, a test is injected with `go test -overlay` (nothing is written into /repo).

import (
	"bytes"
	"fmt"
	"go/ast"
	"go/printer"
	"go/token"
	"go/types"
	"math/big"
	"path/filepath"
	"strconv"
	"strings"
)

type ReplayResult struct {
	Confirmed bool   `json:"confirmed"`
	Outcome   string `json:"outcome"`
	Inputs    string `json:"inputs,omitempty"`
	Test      string `json:"test_source,omitempty"`
	Output    string `json:"output,omitempty"`
}

// ---- s-expressions ----

type sx struct {
	atom string
	list []*sx
}

func (s *sx) isAtom() bool { return s.list == nil && s.atom != "" }

func parseSx(src string) []*sx {
	var out []*sx
	i := 0
	var parse func() *sx
	skip := func() {
		for i < len(src) {
			c := src[i]
			if c == ' ' || c == '\n' || c == '\t' || c == '\r' {
				i++
			} else if c == ';' {
				for i < len(src) && src[i] != '\n' {
					i++
				}
			} else {
				break
			}
		}
	}
	parse = func() *sx {
		skip()
		if i >= len(src) {
			return nil
		}
		if src[i] == '(' {
			i++
			n := &sx{list: []*sx{}}
			for {
				skip()
				if i >= len(src) {
					return n
				}
				if src[i] == ')' {
					i++
					return n
				}
				c := parse()
				if c == nil {
					return n
				}
				n.list = append(n.list, c)
			}
		}
		if src[i] == ')' {
			i++
			return nil
		}
		st := i
		if src[i] == '|' {
			i++
			for i < len(src) && src[i] != '|' {
				i++
			}
			i++
			return &sx{atom: src[st:i]}
		}
		if src[i] == '"' {
			i++
			for i < len(src) && src[i] != '"' {
				i++
			}
			i++
			return &sx{atom: src[st:i]}
		}
		for i < len(src) && !strings.ContainsRune(" \n\t\r()", rune(src[i])) {
			i++
		}
		return &sx{atom: src[st:i]}
	}
	for {
		skip()
		if i >= len(src) {
			break
		}
		n := parse()
		if n != nil {
			out = append(out, n)
		}
	}
	return out
}

// ---- model values ----

type mval struct {
	kind string // rat, bool, dt, arr, fun
	r    *big.Rat
	b    bool
	ctor string
	args []*mval
	// arrays: closure
	arr func(idx *mval) *mval
}

func (v *mval) String() string {
	switch v.kind {
	case "rat":
		return v.r.RatString()
	case "bool":
		return fmt.Sprint(v.b)
	case "dt":
		var parts []string
		for _, a := range v.args {
			parts = append(parts, a.String())
		}
		return "(" + v.ctor + " " + strings.Join(parts, " ") + ")"
	}
	return "<" + v.kind + ">"
}

type model struct {
	defs map[string]*mdef
}

type mdef struct {
	params []string
	body   *sx
	cache  *mval
}

func parseModel(txt string) *model {
	m := &model{defs: map[string]*mdef{}}
	// skip the first line (sat)
	if i := strings.Index(txt, "\n"); i >= 0 {
		txt = txt[i+1:]
	}
	tops := parseSx(txt)
	var visit func(n *sx)
	visit = func(n *sx) {
		if n == nil || n.list == nil {
			return
		}
		if len(n.list) >= 5 && n.list[0].atom == "define-fun" {
			d := &mdef{body: n.list[4]}
			for _, p := range n.list[2].list {
				if len(p.list) > 0 {
					d.params = append(d.params, p.list[0].atom)
				}
			}
			m.defs[n.list[1].atom] = d
			return
		}
		for _, c := range n.list {
			visit(c)
		}
	}
	for _, t := range tops {
		visit(t)
	}
	return m
}

func ratOf(s string) (*big.Rat, bool) {
	r, ok := new(big.Rat).SetString(s)
	return r, ok
}

func mvEqual(a, b *mval) bool {
	if a == nil || b == nil || a.kind != b.kind {
		return false
	}
	switch a.kind {
	case "rat":
		return a.r.Cmp(b.r) == 0
	case "bool":
		return a.b == b.b
	case "dt":
		if a.ctor != b.ctor || len(a.args) != len(b.args) {
			return false
		}
		for i := range a.args {
			if !mvEqual(a.args[i], b.args[i]) {
				return false
			}
		}
		return true
	}
	return false
}

func (m *model) eval(n *sx, env map[string]*mval, depth int) *mval {
	if depth > 200 {
		panic("model evaluation too deep")
	}
	if n.list == nil {
		a := n.atom
		if v, ok := env[a]; ok {
			return v
		}
		if a == "true" {
			return &mval{kind: "bool", b: true}
		}
		if a == "false" {
			return &mval{kind: "bool", b: false}
		}
		if r, ok := ratOf(a); ok {
			return &mval{kind: "rat", r: r}
		}
		if d, ok := m.defs[a]; ok && len(d.params) == 0 {
			if d.cache == nil {
				d.cache = m.eval(d.body, map[string]*mval{}, depth+1)
			}
			return d.cache
		}
		// nullary constructor or unknown symbol
		return &mval{kind: "dt", ctor: a}
	}
	if len(n.list) == 0 {
		panic("empty list")
	}
	head := n.list[0]
	args := n.list[1:]
	if head.list != nil {
		// ((as const (Array K V)) v)  or ((_ to_fp ..)) etc
		if len(head.list) == 3 && head.list[0].atom == "as" && head.list[1].atom == "const" {
			v := m.eval(args[0], env, depth+1)
			return &mval{kind: "arr", arr: func(*mval) *mval { return v }}
		}
		if len(head.list) >= 2 && head.list[0].atom == "lambda" {
			f := m.eval(head, env, depth+1)
			return f.arr(m.eval(args[0], env, depth+1))
		}
		panic("unsupported head " + sxString(head))
	}
	ev := func(i int) *mval { return m.eval(args[i], env, depth+1) }
	num := func(i int) *big.Rat {
		v := ev(i)
		if v.kind != "rat" {
			panic("expected number")
		}
		return v.r
	}
	switch head.atom {
	case "-":
		if len(args) == 1 {
			return &mval{kind: "rat", r: new(big.Rat).Neg(num(0))}
		}
		r := new(big.Rat).Set(num(0))
		for i := 1; i < len(args); i++ {
			r.Sub(r, num(i))
		}
		return &mval{kind: "rat", r: r}
	case "+":
		r := new(big.Rat)
		for i := range args {
			r.Add(r, num(i))
		}
		return &mval{kind: "rat", r: r}
	case "*":
		r := big.NewRat(1, 1)
		for i := range args {
			r.Mul(r, num(i))
		}
		return &mval{kind: "rat", r: r}
	case "/":
		d := num(1)
		if d.Sign() == 0 {
			return &mval{kind: "rat", r: new(big.Rat)}
		}
		return &mval{kind: "rat", r: new(big.Rat).Quo(num(0), d)}
	case "to_real", "to_int":
		if head.atom == "to_int" {
			r := num(0)
			q := new(big.Int).Div(r.Num(), r.Denom())
			return &mval{kind: "rat", r: new(big.Rat).SetInt(q)}
		}
		return ev(0)
	case "div":
		a, b := num(0), num(1)
		if b.Sign() == 0 {
			return &mval{kind: "rat", r: new(big.Rat)}
		}
		q := new(big.Int)
		mm := new(big.Int)
		q.DivMod(a.Num(), b.Num(), mm)
		return &mval{kind: "rat", r: new(big.Rat).SetInt(q)}
	case "mod":
		a, b := num(0), num(1)
		if b.Sign() == 0 {
			return &mval{kind: "rat", r: new(big.Rat)}
		}
		mm := new(big.Int).Mod(a.Num(), b.Num())
		return &mval{kind: "rat", r: new(big.Rat).SetInt(mm)}
	case "=":
		return &mval{kind: "bool", b: mvEqual(ev(0), ev(1))}
	case "<", "<=", ">", ">=":
		c := num(0).Cmp(num(1))
		var b bool
		switch head.atom {
		case "<":
			b = c < 0
		case "<=":
			b = c <= 0
		case ">":
			b = c > 0
		case ">=":
			b = c >= 0
		}
		return &mval{kind: "bool", b: b}
	case "not":
		return &mval{kind: "bool", b: !ev(0).b}
	case "and":
		for i := range args {
			if !ev(i).b {
				return &mval{kind: "bool", b: false}
			}
		}
		return &mval{kind: "bool", b: true}
	case "or":
		for i := range args {
			if ev(i).b {
				return &mval{kind: "bool", b: true}
			}
		}
		return &mval{kind: "bool", b: false}
	case "=>":
		return &mval{kind: "bool", b: !ev(0).b || ev(1).b}
	case "ite":
		if ev(0).b {
			return ev(1)
		}
		return ev(2)
	case "let":
		ne := map[string]*mval{}
		for k, v := range env {
			ne[k] = v
		}
		for _, b := range args[0].list {
			ne[b.list[0].atom] = m.eval(b.list[1], env, depth+1)
		}
		return m.eval(args[1], ne, depth+1)
	case "lambda":
		params := args[0].list
		body := args[1]
		return &mval{kind: "arr", arr: func(idx *mval) *mval {
			ne := map[string]*mval{}
			for k, v := range env {
				ne[k] = v
			}
			if len(params) > 0 {
				ne[params[0].list[0].atom] = idx
			}
			return m.eval(body, ne, depth+1)
		}}
	case "store":
		a, i, v := ev(0), ev(1), ev(2)
		return &mval{kind: "arr", arr: func(idx *mval) *mval {
			if mvEqual(idx, i) {
				return v
			}
			return a.arr(idx)
		}}
	case "select":
		a := ev(0)
		if a.kind != "arr" {
			panic("select on non-array")
		}
		return a.arr(ev(1))
	case "_":
		// (_ as-array f)
		if len(args) == 2 && args[0].atom == "as-array" {
			fn := args[1].atom
			d := m.defs[fn]
			if d == nil {
				panic("as-array of unknown " + fn)
			}
			return &mval{kind: "arr", arr: func(idx *mval) *mval {
				ne := map[string]*mval{}
				if len(d.params) > 0 {
					ne[d.params[0]] = idx
				}
				return m.eval(d.body, ne, depth+1)
			}}
		}
		panic("unsupported (_ ...)")
	}
	// function application or constructor/selector
	if d, ok := m.defs[head.atom]; ok && len(d.params) == len(args) {
		ne := map[string]*mval{}
		for i, p := range d.params {
			ne[p] = ev(i)
		}
		return m.eval(d.body, ne, depth+1)
	}
	if strings.HasPrefix(head.atom, "mk_") {
		v := &mval{kind: "dt", ctor: head.atom}
		for i := range args {
			v.args = append(v.args, ev(i))
		}
		return v
	}
	// selector on a DT value
	if len(args) == 1 {
		v := ev(0)
		if v.kind == "dt" {
			if idx, ok := selectorIndex[head.atom]; ok && idx < len(v.args) {
				return v.args[idx]
			}
		}
	}
	panic("unsupported model term " + head.atom)
}

var selectorIndex = map[string]int{}

func registerSelectors(s *Sort) {
	if s.Kind == KDT {
		for i, f := range s.Fields {
			selectorIndex[f.Name] = i
		}
	}
}

func sxString(n *sx) string {
	if n.list == nil {
		return n.atom
	}
	var parts []string
	for _, c := range n.list {
		parts = append(parts, sxString(c))
	}
	return "(" + strings.Join(parts, " ") + ")"
}

// ---- Go literal construction ----

type litBuilder struct {
	eng     *Engine
	m       *model
	pkg     *types.Package
	decls   []string
	objs    map[string]string // "type/ref" -> variable name
	counter int
	imports map[string]bool
}

func (lb *litBuilder) qual(p *types.Package) string {
	if p == lb.pkg {
		return ""
	}
	lb.imports[p.Path()] = true
	return p.Name()
}

func (lb *litBuilder) typeStr(t types.Type) string { return types.TypeString(t, lb.qual) }

func (lb *litBuilder) get(name string) *mval {
	d := lb.m.defs[name]
	if d == nil {
		return nil
	}
	return lb.m.eval(&sx{atom: name}, map[string]*mval{}, 0)
}

func ratFloat(r *big.Rat) string {
	f, _ := r.Float64()
	s := strconv.FormatFloat(f, 'g', -1, 64)
	if !strings.ContainsAny(s, ".eE") {
		s += ".0"
	}
	return s
}

func ratInt(r *big.Rat) int64 {
	q := new(big.Int).Div(r.Num(), r.Denom())
	return q.Int64()
}

func (lb *litBuilder) heapVal(name string) *mval {
	return lb.get(name + "@0")
}

// lit renders model value v of Go type t as a Go expression
func (lb *litBuilder) lit(v *mval, t types.Type) string {
	if v == nil {
		return lb.zeroLit(t)
	}
	switch u := t.Underlying().(type) {
	case *types.Basic:
		info := u.Info()
		switch {
		case info&types.IsBoolean != 0:
			return fmt.Sprint(v.b)
		case info&types.IsInteger != 0:
			if v.kind != "rat" {
				return "0"
			}
			return fmt.Sprintf("%s(%d)", lb.typeStr(t), ratInt(v.r))
		case info&types.IsFloat != 0:
			if v.kind != "rat" {
				return "0.0"
			}
			return fmt.Sprintf("%s(%s)", lb.typeStr(t), ratFloat(v.r))
		case info&types.IsString != 0:
			if v.kind == "dt" && len(v.args) == 3 {
				n := ratInt(v.args[2].r)
				off := ratInt(v.args[1].r)
				if n < 0 || n > 4096 {
					panic("string too long in model")
				}
				bs := make([]byte, n)
				for i := int64(0); i < n; i++ {
					c := v.args[0].arr(&mval{kind: "rat", r: big.NewRat(off+i, 1)})
					bs[i] = byte(ratInt(c.r))
				}
				return strconv.Quote(string(bs))
			}
			return `""`
		}
	case *types.Struct:
		si := lb.eng.tm.structOf(t)
		var parts []string
		for i, f := range si.fields {
			if i < len(v.args) {
				parts = append(parts, f.Name()+": "+lb.lit(v.args[i], f.Type()))
			}
		}
		return lb.typeStr(t) + "{" + strings.Join(parts, ", ") + "}"
	case *types.Array:
		var parts []string
		for i := int64(0); i < u.Len(); i++ {
			var e *mval
			if v.kind == "dt" {
				if int(i) < len(v.args) {
					e = v.args[i]
				}
			} else if v.kind == "arr" {
				e = v.arr(&mval{kind: "rat", r: big.NewRat(i, 1)})
			}
			parts = append(parts, lb.lit(e, u.Elem()))
		}
		return lb.typeStr(t) + "{" + strings.Join(parts, ", ") + "}"
	case *types.Slice:
		if v.kind != "dt" || len(v.args) != 4 {
			return "nil"
		}
		blk, off, ln, cp := ratInt(v.args[0].r), ratInt(v.args[1].r), ratInt(v.args[2].r), ratInt(v.args[3].r)
		if blk == 0 {
			return lb.typeStr(t) + "(nil)"
		}
		if ln < 0 || cp > 100000 || ln > cp {
			panic("slice too large in model")
		}
		es := lb.eng.tm.sortOf(u.Elem())
		key := fmt.Sprintf("blk/%s/%d", es.Mangle(), blk)
		name, ok := lb.objs[key]
		if !ok {
			// materialise the whole block up to the largest extent seen: off+cap
			mem := lb.heapVal(memName(es))
			n := off + cp
			var parts []string
			for i := int64(0); i < n; i++ {
				var e *mval
				if mem != nil {
					e = mem.arr(&mval{kind: "rat", r: big.NewRat(blk, 1)}).arr(&mval{kind: "rat", r: big.NewRat(i, 1)})
				}
				parts = append(parts, lb.lit(e, u.Elem()))
			}
			lb.counter++
			name = fmt.Sprintf("blk%d", lb.counter)
			lb.objs[key] = name
			lb.decls = append(lb.decls, fmt.Sprintf("%s := %s{%s}", name, lb.typeStr(types.NewSlice(u.Elem())), strings.Join(parts, ", ")))
			lb.decls = append(lb.decls, "_ = "+name)
		}
		return fmt.Sprintf("%s(%s[%d:%d:%d])", lb.typeStr(t), name, off, off+ln, off+cp)
	case *types.Pointer:
		if v.kind != "rat" {
			return "nil"
		}
		ref := ratInt(v.r)
		if ref == 0 {
			return "nil"
		}
		et := u.Elem()
		key := fmt.Sprintf("ref/%s/%d", lb.typeStr(et), ref)
		if name, ok := lb.objs[key]; ok {
			return name
		}
		lb.counter++
		name := fmt.Sprintf("obj%d", lb.counter)
		lb.objs[key] = name
		if isStruct(et) {
			si := lb.eng.tm.structOf(et)
			lb.decls = append(lb.decls, fmt.Sprintf("%s := &%s{}", name, lb.typeStr(et)))
			for i, f := range si.fields {
				h := lb.heapVal(fieldHeapName(si, i))
				if h == nil {
					continue
				}
				fv := h.arr(&mval{kind: "rat", r: big.NewRat(ref, 1)})
				lb.decls = append(lb.decls, fmt.Sprintf("%s.%s = %s", name, f.Name(), lb.lit(fv, f.Type())))
			}
		} else {
			lb.decls = append(lb.decls, fmt.Sprintf("%s := new(%s)", name, lb.typeStr(et)))
			if h := lb.heapVal("H_" + shortTypeName(et) + "_val"); h != nil {
				lb.decls = append(lb.decls, fmt.Sprintf("*%s = %s", name, lb.lit(h.arr(&mval{kind: "rat", r: big.NewRat(ref, 1)}), et)))
			}
		}
		return name
	}
	return lb.zeroLit(t)
}

func (lb *litBuilder) zeroLit(t types.Type) string {
	switch t.Underlying().(type) {
	case *types.Basic:
		if isString(t) {
			return `""`
		}
		if b := t.Underlying().(*types.Basic); b.Info()&types.IsBoolean != 0 {
			return "false"
		}
		return lb.typeStr(t) + "(0)"
	case *types.Struct, *types.Array:
		return lb.typeStr(t) + "{}"
	}
	return "nil"
}

// ---- replay of one obligation ----

func exprSrc(fset *token.FileSet, e ast.Expr) string {
	var b bytes.Buffer
	printer.Fprint(&b, fset, e)
	return b.String()
}

// collect old(...) calls in pre-order
func collectOld(e ast.Node) []*ast.CallExpr {
	var out []*ast.CallExpr
	ast.Inspect(e, func(n ast.Node) bool {
		if c, ok := n.(*ast.CallExpr); ok {
			if id, ok := c.Fun.(*ast.Ident); ok && id.Name == "old" && len(c.Args) == 1 {
				out = append(out, c)
				return false
			}
		}
		return true
	})
	return out
}

func replayObligation(eng *Engine, o *Obligation, ct *Contract, modelTxt string, repo string) (rr *ReplayResult) {
	rr = &ReplayResult{}
	defer func() {
		if r := recover(); r != nil {
			rr.Outcome = fmt.Sprintf("replay not possible: %v", r)
		}
	}()
	if ct == nil {
		rr.Outcome = "no contract"
		return
	}
	fi := ct.Fn
	for _, si := range eng.tm.structs {
		registerSelectors(si.sort)
	}
	for _, s := range arrDTs {
		registerSelectors(s)
	}
	registerSelectors(SliceSort)
	registerSelectors(StrSort)
	registerSelectors(IfaceSort)
	m := parseModel(modelTxt)
	lb := &litBuilder{eng: eng, m: m, pkg: fi.Pkg.Types, objs: map[string]string{}, imports: map[string]bool{}}
	sig := fi.Obj.Type().(*types.Signature)
	info := fi.Pkg.TypesInfo
	var body []string
	var inputs []string
	// globals that the model constrains (tunables): set and restore
	for name := range m.defs {
		if strings.HasPrefix(name, "G_") && strings.HasSuffix(name, "@0") {
			gname := strings.TrimSuffix(strings.TrimPrefix(name, "G_"+fi.Pkg.Types.Name()+"_"), "@0")
			if obj, ok := fi.Pkg.Types.Scope().Lookup(gname).(*types.Var); ok && isFloat(obj.Type()) {
				v := lb.get(name)
				if v != nil && v.kind == "rat" {
					body = append(body, fmt.Sprintf("{ saved := %s; %s = %s; defer func() { %s = saved }() }", gname, gname, ratFloat(v.r), gname))
					inputs = append(inputs, gname+" = "+ratFloat(v.r))
				}
			}
		}
	}
	var argNames []string
	recvName := ""
	declare := func(nm *ast.Ident) string {
		obj := info.Defs[nm]
		if obj == nil || nm.Name == "_" {
			return ""
		}
		v := lb.get("p_" + sanitizeSym(nm.Name))
		l := lb.lit(v, obj.Type())
		body = append(body, lb.decls...)
		lb.decls = nil
		body = append(body, fmt.Sprintf("var %s %s = %s", nm.Name, lb.typeStr(obj.Type()), l))
		body = append(body, "_ = "+nm.Name)
		inputs = append(inputs, nm.Name+" = "+l)
		return nm.Name
	}
	if fi.Decl.Recv != nil && len(fi.Decl.Recv.List) > 0 {
		if len(fi.Decl.Recv.List[0].Names) > 0 {
			recvName = declare(fi.Decl.Recv.List[0].Names[0])
		}
		if recvName == "" {
			recvName = "recv"
			body = append(body, fmt.Sprintf("var recv %s", lb.typeStr(sig.Recv().Type())))
		}
	}
	for _, fld := range fi.Decl.Type.Params.List {
		for _, nm := range fld.Names {
			n := declare(nm)
			if n == "" {
				n = lb.zeroLit(info.TypeOf(fld.Type))
			}
			if _, isEll := fld.Type.(*ast.Ellipsis); isEll {
				n += "..."
			}
			argNames = append(argNames, n)
		}
	}
	// requires (evaluated in float64)
	for _, rq := range ct.Requires {
		e, _ := parseClauseExpr(token.NewFileSet(), &Clause{Text: rq.Text, Line: "clause"})
		body = append(body, fmt.Sprintf("if !(%s) { t.Log(\"REQUIRES-NOT-MET requires#%d\"); requiresMet = false }", exprSrc(token.NewFileSet(), e), rq.Ord))
	}
	// which ensures clause failed?
	var ens *Clause
	if o.Kind == "ensures" {
		ens = o.Clause
	}
	// old() snapshots
	ensSrc := ""
	if ens != nil {
		fs2 := token.NewFileSet()
		e, _ := parseClauseExpr(fs2, &Clause{Text: ens.Text, Line: "clause"})
		holder := &ast.ParenExpr{X: e}
		olds := collectOld(holder)
		var origOlds []*ast.CallExpr
		if fl, ok := ens.Expr.(*ast.FuncLit); ok {
			origOlds = collectOld(fl.Body)
		}
		for k, oc := range olds {
			name := fmt.Sprintf("old%d", k)
			src := exprSrc(fs2, oc.Args[0])
			var ot types.Type
			if k < len(origOlds) {
				ot = ens.Info.TypeOf(origOlds[k].Args[0])
			}
			body = append(body, fmt.Sprintf("%s := %s", name, snapshotExpr(lb, src, ot)))
			body = append(body, "_ = "+name)
			// replace call by identifier
			oc.Fun = ast.NewIdent("")
			oc.Args = nil
			replaceNode(holder, oc, ast.NewIdent(name))
		}
		ensSrc = exprSrc(fs2, holder.X)
	}
	// call
	nres := sig.Results().Len()
	var resNames []string
	for i := 0; i < nres; i++ {
		rn := fmt.Sprintf("result%d", i)
		resNames = append(resNames, rn)
		body = append(body, fmt.Sprintf("var %s %s", rn, lb.typeStr(sig.Results().At(i).Type())))
		body = append(body, "_ = "+rn)
	}
	callee := fi.Obj.Name()
	if recvName != "" {
		callee = recvName + "." + callee
	}
	callSrc := fmt.Sprintf("%s(%s)", callee, strings.Join(argNames, ", "))
	if nres > 0 {
		callSrc = strings.Join(resNames, ", ") + " = " + callSrc
	}
	body = append(body, "var panicked interface{}")
	body = append(body, "func() { defer func() { panicked = recover() }(); "+callSrc+" }()")
	body = append(body, "if panicked != nil { if requiresMet { t.Fatalf(\"PANIC: %v\", panicked) }; t.Skipf(\"panic outside precondition: %v\", panicked) }")
	if nres > 0 {
		body = append(body, "result := result0; _ = result")
		// named results
		k := 0
		if fi.Decl.Type.Results != nil {
			for _, fld := range fi.Decl.Type.Results.List {
				if len(fld.Names) == 0 {
					k++
					continue
				}
				for _, nm := range fld.Names {
					if nm.Name != "_" {
						body = append(body, fmt.Sprintf("%s := result%d; _ = %s", nm.Name, k, nm.Name))
					}
					k++
				}
			}
		}
	}
	if ensSrc != "" {
		body = append(body, fmt.Sprintf("if requiresMet && !(%s) { t.Fatalf(\"ENSURES-FALSE: %%s\", %s) }", ensSrc, strconv.Quote(ens.Text)))
	}
	body = append(body, "if !requiresMet { t.Skip(\"model does not satisfy the precondition in float64\") }")
	var src strings.Builder
	src.WriteString("package " + fi.Pkg.Types.Name() + "\n\nimport (\n\t\"testing\"\n")
	for p := range lb.imports {
		src.WriteString("\t" + strconv.Quote(p) + "\n")
	}
	src.WriteString(")\n\nfunc TestVerifReplay(t *testing.T) {\n\trequiresMet := true\n\t_ = requiresMet\n")
	for _, l := range body {
		src.WriteString("\t" + l + "\n")
	}
	src.WriteString("}\n")
	rr.Test = src.String()
	rr.Inputs = strings.Join(inputs, "; ")
	pkgDir := filepath.Dir(fi.File)
	if !strings.HasPrefix(pkgDir, repo) {
		pkgDir = filepath.Join(repo, strings.TrimPrefix(pkgDir, "/repo"))
	}
	out, failed := runOverlayTest(repo, pkgDir, "verif_replay_test.go", rr.Test, "TestVerifReplay")
	rr.Output = truncate(out, 4000)
	switch {
	case failed && strings.Contains(out, "ENSURES-FALSE"):
		rr.Confirmed = true
		rr.Outcome = "postcondition false on the real code for the model input"
	case failed && strings.Contains(out, "PANIC:"):
		rr.Confirmed = true
		rr.Outcome = "real code panics on the model input"
	case failed:
		rr.Outcome = "replay test did not build or failed otherwise"
	case strings.Contains(out, "REQUIRES-NOT-MET"):
		rr.Outcome = "model input violates the precondition after rounding to float64"
	default:
		rr.Outcome = "real code satisfies the clause on the model input (spurious or abstraction-dependent model)"
	}
	return rr
}

func snapshotExpr(lb *litBuilder, src string, t types.Type) string {
	if t == nil {
		return src
	}
	switch u := t.Underlying().(type) {
	case *types.Slice:
		return fmt.Sprintf("append(%s(nil), %s...)", lb.typeStr(t), src)
	case *types.Pointer:
		if st, ok := u.Elem().Underlying().(*types.Struct); ok {
			var b strings.Builder
			fmt.Fprintf(&b, "func() %s { if %s == nil { return nil }; c := *%s; ", lb.typeStr(t), src, src)
			for i := 0; i < st.NumFields(); i++ {
				f := st.Field(i)
				if _, ok := f.Type().Underlying().(*types.Slice); ok {
					fmt.Fprintf(&b, "c.%s = append(%s(nil), c.%s...); ", f.Name(), lb.typeStr(f.Type()), f.Name())
				}
			}
			b.WriteString("return &c }()")
			return b.String()
		}
	}
	return src
}

// replaceNode replaces target (a child expression somewhere under root) by repl
func replaceNode(root ast.Node, target ast.Expr, repl ast.Expr) {
	ast.Inspect(root, func(n ast.Node) bool {
		switch x := n.(type) {
		case *ast.ParenExpr:
			if x.X == target {
				x.X = repl
			}
		case *ast.BinaryExpr:
			if x.X == target {
				x.X = repl
			}
			if x.Y == target {
				x.Y = repl
			}
		case *ast.UnaryExpr:
			if x.X == target {
				x.X = repl
			}
		case *ast.CallExpr:
			for i := range x.Args {
				if x.Args[i] == target {
					x.Args[i] = repl
				}
			}
			if x.Fun == target {
				x.Fun = repl
			}
		case *ast.SelectorExpr:
			if x.X == target {
				x.X = repl
			}
		case *ast.IndexExpr:
			if x.X == target {
				x.X = repl
			}
			if x.Index == target {
				x.Index = repl
			}
		case *ast.SliceExpr:
			if x.X == target {
				x.X = repl
			}
		case *ast.StarExpr:
			if x.X == target {
				x.X = repl
			}
		case *ast.ReturnStmt:
			for i := range x.Results {
				if x.Results[i] == target {
					x.Results[i] = repl
				}
			}
		case *ast.KeyValueExpr:
			if x.Value == target {
				x.Value = repl
			}
		case *ast.CompositeLit:
			for i := range x.Elts {
				if x.Elts[i] == target {
					x.Elts[i] = repl
				}
			}
		}
		return true
	})
}
