package main

// Loops: cut at the invariant. assert inv on entry; havoc the write set; assume inv;
// execute the body once; assert inv at every back edge; continue from inv && !guard.

import (
	"fmt"
	"go/ast"
	"go/token"
	"go/types"
	"sort"
)

// writeSet collects the variables syntactically assigned in the nodes, and whether heap
// memory may be written (field/element stores, appends, calls).
type memBlockWrite struct {
	mem  string
	base ast.Expr
}

type writeSet struct {
	blocks  []memBlockWrite // element stores whose base slice may be loop-invariant: only that block is havoc'd
	names   map[string]bool // heap arrays that may be written (when heap is false)
	globals map[*types.Var]bool
	vars  map[types.Object]bool
	heap  bool
	calls bool
}

func (x *Exec) collectWrites(ws *writeSet, nodes ...ast.Node) {
	var base func(e ast.Expr) (*ast.Ident, bool)
	base = func(e ast.Expr) (*ast.Ident, bool) {
		// returns the root identifier of an lvalue chain and whether the chain passes through a pointer/slice (heap)
		switch l := e.(type) {
		case *ast.Ident:
			return l, false
		case *ast.ParenExpr:
			return base(l.X)
		case *ast.SelectorExpr:
			id, h := base(l.X)
			if t := x.typeOf(l.X); t != nil && isPointer(t) {
				return id, true
			}
			if sel := x.selection(l); sel != nil && sel.Indirect() {
				return id, true
			}
			return id, h
		case *ast.IndexExpr:
			id, h := base(l.X)
			if t := x.typeOf(l.X); t != nil {
				switch t.Underlying().(type) {
				case *types.Slice, *types.Map, *types.Pointer:
					return id, true
				}
			}
			return id, h
		case *ast.StarExpr:
			id, _ := base(l.X)
			return id, true
		}
		return nil, true
	}
	addName := func(n string) {
		if ws.names == nil {
			ws.names = map[string]bool{}
		}
		ws.names[n] = true
	}
	// heapTarget tries to name the heap array written by an lvalue; ok=false => unknown (havoc all)
	var heapTarget func(e ast.Expr) bool
	heapTarget = func(e ast.Expr) bool {
		switch l := e.(type) {
		case *ast.ParenExpr:
			return heapTarget(l.X)
		case *ast.IndexExpr:
			t := x.typeOf(l.X)
			if t == nil {
				return false
			}
			switch u := t.Underlying().(type) {
			case *types.Slice:
				ws.blocks = append(ws.blocks, memBlockWrite{mem: memName(x.eng.tm.sortOf(u.Elem())), base: l.X})
				return true
			case *types.Map:
				vn, dn, _, _ := x.mapNames(t)
				addName(vn)
				addName(dn)
				return true
			case *types.Array:
				return heapTarget(l.X)
			}
			return false
		case *ast.SelectorExpr:
			sel := x.selection(l)
			if sel == nil || sel.Kind() != types.FieldVal {
				return false
			}
			// walk the selection path to the last pointer indirection
			t := x.typeOf(l.X)
			path := sel.Index()
			lastName := ""
			for _, i := range path {
				if t == nil {
					return false
				}
				if isPointer(t) {
					st := elemOfPointer(t)
					if !isStruct(st) {
						return false
					}
					si := x.eng.tm.structOf(st)
					lastName = fieldHeapName(si, i)
					t = si.fields[i].Type()
					continue
				}
				if !isStruct(t) {
					return false
				}
				si := x.eng.tm.structOf(t)
				t = si.fields[i].Type()
			}
			if lastName != "" {
				addName(lastName)
				return true
			}
			return heapTarget(l.X)
		case *ast.StarExpr:
			t := x.typeOf(l.X)
			if t != nil && isPointer(t) && isStruct(elemOfPointer(t)) {
				si := x.eng.tm.structOf(elemOfPointer(t))
				for i := range si.fields {
					addName(fieldHeapName(si, i))
				}
				return true
			}
			if t != nil && isPointer(t) {
				addName("H_" + shortTypeName(elemOfPointer(t)) + "_val")
				return true
			}
			return false
		}
		return false
	}
	mark := func(e ast.Expr) {
		id, h := base(e)
		if h {
			if !heapTarget(e) {
				ws.heap = true
			}
		} else if id != nil && id.Name != "_" {
			if o := x.objOf(id); o != nil {
				ws.vars[o] = true
				if v, ok := o.(*types.Var); ok && x.isGlobal(v) {
					if ws.globals == nil {
						ws.globals = map[*types.Var]bool{}
					}
					ws.globals[v] = true
				}
			}
		}
	}
	for _, n := range nodes {
		if n == nil {
			continue
		}
		ast.Inspect(n, func(n ast.Node) bool {
			switch a := n.(type) {
			case *ast.AssignStmt:
				for _, l := range a.Lhs {
					mark(l)
				}
			case *ast.IncDecStmt:
				mark(a.X)
			case *ast.RangeStmt:
				if a.Key != nil {
					mark(a.Key)
				}
				if a.Value != nil {
					mark(a.Value)
				}
			case *ast.DeclStmt:
				if gd, ok := a.Decl.(*ast.GenDecl); ok {
					for _, sp := range gd.Specs {
						if vs, ok := sp.(*ast.ValueSpec); ok {
							for _, nm := range vs.Names {
								if o := x.objOf(nm); o != nil {
									ws.vars[o] = true
								}
							}
						}
					}
				}
			case *ast.CallExpr:
				isClosure := false
				if id, ok := a.Fun.(*ast.Ident); ok {
					if o := x.objOf(id); o != nil {
						for fi := len(x.frames) - 1; fi >= 0; fi-- {
							if x.frames[fi].closures[o] != nil {
								isClosure = true
							}
						}
					}
				}
				if f, ok := x.calleeObj(a).(*types.Func); ok && f.FullName() == "(*sync.Pool).Get" {
					addName("$alloc")
					break
				}
				if !isClosure && x.callMayWriteHeap(a) {
					if !x.callWriteNames(a, addName) {
						ws.heap = true
					}
				}
				// method calls with pointer receivers on addressable locals, and &x arguments, may write x
				for _, arg := range a.Args {
					if u, ok := arg.(*ast.UnaryExpr); ok && u.Op == token.AND {
						mark(u.X)
					}
				}
				if sel, ok := a.Fun.(*ast.SelectorExpr); ok {
					if s := x.selection(sel); s != nil && s.Kind() == types.MethodVal {
						if sig, ok := s.Obj().Type().(*types.Signature); ok && sig.Recv() != nil && isPointer(sig.Recv().Type()) {
							if rt := x.typeOf(sel.X); rt != nil && !isPointer(rt) {
								mark(sel.X)
							}
						}
					}
				}
				// closures called may assign captured variables
				if id, ok := a.Fun.(*ast.Ident); ok {
					if o := x.objOf(id); o != nil {
						if fl := x.frame().closures[o]; fl != nil {
							x.collectWrites(ws, fl.Body)
						}
					}
				}
			case *ast.UnaryExpr:
				if a.Op == token.AND {
					if cl, ok := unparen(a.X).(*ast.CompositeLit); ok {
						if t := x.typeOf(cl); t != nil && isStruct(t) {
							addName("$alloc")
							si := x.eng.tm.structOf(t)
							for i := range si.fields {
								addName(fieldHeapName(si, i))
							}
						} else {
							ws.heap = true
						}
					}
				}
			case *ast.CompositeLit:
				if t := x.typeOf(a); t != nil {
					switch u := t.Underlying().(type) {
					case *types.Slice:
						addName("$balloc")
						addName(memName(x.eng.tm.sortOf(u.Elem())))
					case *types.Map:
						vn, dn, _, _ := x.mapNames(t)
						addName("$alloc")
						addName(vn)
						addName(dn)
					}
				}
			case *ast.FuncLit:
				return true
			}
			return true
		})
	}
}

// callMayWriteHeap: conservative syntactic judgement
func (x *Exec) callMayWriteHeap(call *ast.CallExpr) bool {
	tv, ok := x.tv(call.Fun)
	if ok && tv.IsType() {
		return false
	}
	var obj types.Object
	switch f := call.Fun.(type) {
	case *ast.Ident:
		obj = x.objOf(f)
	case *ast.SelectorExpr:
		obj = x.objOf(f.Sel)
	}
	switch o := obj.(type) {
	case *types.Builtin:
		switch o.Name() {
		case "append", "copy", "make", "new", "delete", "clear":
			return true
		}
		return false
	case *types.Func:
		if extCallPure(o) {
			return false
		}
		if isSpecHelper(o) || libPure[o.FullName()] {
			return false
		}
		if x.eng.isPureFunc(o) {
			return false
		}
		return true
	}
	return true
}

// nextLoopOrd returns the ordinal of loop statement n. For the function under contract the ordinal is
// static (source order within the body, function literals excluded), so that it does not depend on how
// many states reach the loop under path splitting; inlined frames keep a per-activation counter.
// logGap: marker for an unknown stretch of the ghost write log (loop iterations)
const logGap = "\x00gap"

// thoroughTier: set by `govc check --tier thorough` (extra reachability probes)
var thoroughTier bool

func (x *Exec) nextLoopOrd(f *Frame, n ast.Node) int {
	if t := x.closureTop(f); t != nil {
		// a loop inside a closure of the function under verification: numbered after that function's own loops
		x.fillLoopIdx(t)
		if o, ok := t.loopIdx[n]; ok {
			return o
		}
	}
	if f.contract != nil && !f.inlined && f.fi != nil && f.fi.Decl != nil && f.fi.Decl.Body != nil {
		x.fillLoopIdx(f)
		if o, ok := f.loopIdx[n]; ok {
			return o
		}
	}
	f.loopOrd++
	return f.loopOrd
}

func (x *Exec) fillLoopIdx(f *Frame) {
	if f.loopIdx == nil {
		f.loopIdx = map[ast.Node]int{}
		for i, m := range loopNodes(f.fi.Decl.Body) {
			f.loopIdx[m] = i + 1
		}
	}
}

// closureTop: f is the frame of a closure literal of the function under verification, inlined directly from it
// (every frame between is such a closure frame too): the top frame, whose contract may carry invariants for the
// closure's loops; nil otherwise
func (x *Exec) closureTop(f *Frame) *Frame {
	if !f.inlined || f.closureSig == nil || len(x.frames) < 2 {
		return nil
	}
	t := x.frames[0]
	if t.contract == nil || t.inlined || t.fi == nil || t.fi != f.fi || t.fi.Decl == nil || t.fi.Decl.Body == nil {
		return nil
	}
	for _, g := range x.frames[1:] {
		if !g.inlined || g.closureSig == nil || g.fi != t.fi {
			return nil
		}
	}
	return t
}

func (x *Exec) loopSpec(ord int) *LoopSpec {
	f := x.frame()
	if t := x.closureTop(f); t != nil {
		x.fillLoopIdx(t)
		for _, o := range t.loopIdx {
			if o == ord {
				return t.contract.Loops[ord]
			}
		}
		return nil
	}
	if f.contract == nil || f.inlined {
		return nil
	}
	return f.contract.Loops[ord]
}

func (x *Exec) evalClause(s *State, c *Clause) *Term {
	x.clauseInfo = append(x.clauseInfo, c.Info)
	x.clauseDepth++
	defer func() { x.clauseInfo = x.clauseInfo[:len(x.clauseInfo)-1]; x.clauseDepth-- }()
	return x.evalCond(s, c.Expr)
}

// resolveBlocks decides, for each element store, whether its base slice is loop-invariant; if so only the
// block of that slice (evaluated before the loop) is havoc'd, otherwise the whole memory of that element sort.
func (x *Exec) resolveBlocks(s *State, ws *writeSet) []struct {
	mem string
	blk *Term
} {
	var out []struct {
		mem string
		blk *Term
	}
	for _, b := range ws.blocks {
		if ws.heap || (ws.names != nil && ws.names[b.mem]) {
			continue
		}
		stable := true
		var fields []string
		var rootOK func(e ast.Expr) bool
		rootOK = func(e ast.Expr) bool {
			switch l := e.(type) {
			case *ast.Ident:
				o := x.objOf(l)
				if o == nil || ws.vars[o] {
					return false
				}
				if v, ok := o.(*types.Var); ok && x.isGlobal(v) {
					return false
				}
				return true
			case *ast.ParenExpr:
				return rootOK(l.X)
			case *ast.SelectorExpr:
				sel := x.selection(l)
				if sel == nil || sel.Kind() != types.FieldVal {
					return false
				}
				t := x.typeOf(l.X)
				for _, i := range sel.Index() {
					if t == nil {
						return false
					}
					if isPointer(t) {
						st := elemOfPointer(t)
						if !isStruct(st) {
							return false
						}
						si := x.eng.tm.structOf(st)
						fields = append(fields, fieldHeapName(si, i))
						t = si.fields[i].Type()
						continue
					}
					if !isStruct(t) {
						return false
					}
					t = x.eng.tm.structOf(t).fields[i].Type()
				}
				return rootOK(l.X)
			}
			return false
		}
		if !rootOK(b.base) {
			stable = false
		}
		for _, f := range fields {
			if ws.names != nil && ws.names[f] {
				stable = false
			}
		}
		if !stable {
			if ws.names == nil {
				ws.names = map[string]bool{}
			}
			ws.names[b.mem] = true
			continue
		}
		x.dry++
		sv := x.eval(s, b.base)
		x.dry--
		if sv.S != SliceSort {
			ws.names[b.mem] = true
			continue
		}
		out = append(out, struct {
			mem string
			blk *Term
		}{b.mem, Field(sv, 0)})
	}
	// a later full-memory write overrides block-level entries
	var kept []struct {
		mem string
		blk *Term
	}
	for _, o := range out {
		if ws.names != nil && ws.names[o.mem] {
			continue
		}
		kept = append(kept, o)
	}
	return kept
}

func (x *Exec) havocVars(s *State, ws *writeSet) {
	blocks := x.resolveBlocks(s, ws)
	defer func() {
		if ws.heap {
			return
		}
		for _, b := range blocks {
			mem, ok := s.heap[b.mem]
			if !ok {
				mem = x.heapInit(b.mem, nil)
				if mem == nil {
					continue
				}
			}
			fresh := x.freshVar("blockhavoc", mem.S.Elem)
			x.heapSet(s, b.mem, Store(mem, b.blk, fresh))
		}
	}()
	// deterministic order
	type ov struct {
		o types.Object
	}
	var objs []types.Object
	for o := range ws.vars {
		objs = append(objs, o)
	}
	sortObjs(objs)
	for _, o := range objs {
		if _, ok := s.env[o]; !ok {
			continue // declared inside the loop
		}
		s.env[o] = x.havocValue(s, o.Name(), o.Type())
	}
	if ws.heap {
		x.havocAllHeap(s)
	} else if len(ws.names) > 0 {
		var ns []string
		for n := range ws.names {
			ns = append(ns, n)
		}
		sort.Strings(ns)
		for _, k := range ns {
			if k == "$alloc" || k == "$balloc" {
				old := x.heapGet(s, k, SInt)
				x.havocHeap(s, k)
				s.assume(Cmp("<=", old, s.heap[k]))
				continue
			}
			x.havocHeap(s, k)
		}
	}
	for g := range ws.globals {
		x.heapSet(s, x.globalName(g), x.havocValue(s, "havoc_"+g.Name(), g.Type()))
	}
}

func sortObjs(objs []types.Object) {
	for i := 1; i < len(objs); i++ {
		for j := i; j > 0 && (objs[j].Pos() < objs[j-1].Pos()); j-- {
			objs[j], objs[j-1] = objs[j-1], objs[j]
		}
	}
}

func (x *Exec) execFor(s *State, n *ast.ForStmt) *State {
	f := x.frame()
	ord := x.nextLoopOrd(f, n)
	label := f.label
	f.label = ""
	if n.Init != nil {
		s = x.execStmt(s, n.Init)
		if s == nil {
			return nil
		}
	}
	spec := x.loopSpec(ord)
	return x.cutLoop(s, ord, label, spec, n.Pos(),
		func(st *State) *Term {
			if n.Cond == nil {
				return True
			}
			return x.evalCond(st, n.Cond)
		},
		n.Body, n.Post, nil, []ast.Node{n.Body, n.Post, n.Cond})
}

// cutLoop implements the generic loop rule. pre is executed at the start of each iteration (range binding).
func (x *Exec) cutLoop(s *State, ord int, label string, spec *LoopSpec, pos token.Pos,
	cond func(*State) *Term, body *ast.BlockStmt, post ast.Stmt, pre func(*State), writes []ast.Node) *State {
	f := x.frame()
	top := x.top.Key
	ws := &writeSet{vars: map[types.Object]bool{}}
	x.collectWrites(ws, writes...)
	// a snapshot left by an earlier analysis of this loop (another path reaching it) must not be seen by the entry
	// checks: iterStart(ord, e) is the current value of e there
	delete(f.iterStarts, ord)

	// 1. invariant on entry
	if spec != nil {
		for _, inv := range spec.Invariants {
			x.goalMode = true
			g := x.evalClause(s, inv)
			x.goalMode = false
			x.obligeNamed(s, fmt.Sprintf("%s/loop%d.inv#%d.entry", top, ord, inv.Ord), "invariant", g, x.pos(pos), inv.Text)
		}
	}
	// 2. havoc
	frameNames := x.loopFrameNames(ws, s)
	x.loopFrameOblige(s, frameNames, ord, "entry", x.pos(pos))
	h := s.clone()
	x.loopCallGap(h, writes...)    // an unknown number of iterations may have called out of the module
	h.log = append(h.log, logGap) // ... and may have written: an unknown stretch of the ghost write log
	x.havocVars(h, ws)
	x.loopFrameAssume(h, frameNames)
	if spec != nil {
		for _, inv := range spec.Invariants {
			t := x.evalClause(h, inv)
			x.tagHyp(t, fmt.Sprintf("loop%d.inv#%d", ord, inv.Ord))
			h.assume(t)
		}
	} else if len(x.frames) == 1 && x.dry == 0 {
		x.note("%s: loop %d has no invariant (havoc only)", x.pos(pos), ord)
	}
	// 3. guard
	c := cond(h)
	if h.dead {
		return nil
	}
	lc := &loopCtx{label: label, body: body.List}
	f.loops = append(f.loops, lc)
	var exit *State
	if c != True {
		exit = h.clone()
		exit.assume(Not(c))
	}
	if c != False {
		b := h.clone()
		b.assume(c)
		if thoroughTier && spec != nil && len(spec.Invariants) > 0 && !f.inlined && x.dry == 0 {
			// reachability probe behind the loop invariants: invariant + guard must be satisfiable, otherwise the
			// preservation obligations are vacuously true (undecided probes, e.g. quantified invariants, are inconclusive)
			top := x.frames[0].fi
			x.obls = append(x.obls, &Obligation{Name: fmt.Sprintf("%s/loop%d.reach", top.Key, ord), Kind: "vacuity", Func: top.Key,
				Hyps: append([]*Term(nil), b.assumes...), Goal: nil, Pos: x.pos(pos), Text: "loop invariants and guard satisfiable", fi: top, Props: x.curProps})
			// ... and whether the loop is reached at all under the function's preconditions (s: the state before the cut)
			x.obls = append(x.obls, &Obligation{Name: fmt.Sprintf("%s/loop%d.entryreach", top.Key, ord), Kind: "vacuity", Func: top.Key,
				Hyps: append([]*Term(nil), s.assumes...), Goal: nil, Pos: x.pos(pos), Text: "loop entry reachable", fi: top, Props: x.curProps})
		}
		if f.iterStarts == nil {
			f.iterStarts = map[int]*State{}
		}
		var dec0 *Term
		if spec != nil && spec.Decreases != nil {
			dec0 = x.evalClauseVal(b, spec.Decreases)
		}
		if pre != nil {
			pre(b)
		}
		// snapshot for iterStart(ord, e): taken after the range variables of this iteration are assigned
		f.iterStarts[ord] = b.clone()
		savedDepth := x.blockDepth
		x.blockDepth = 0
		if len(x.frames) == 1 {
			x.loopOrds = append(x.loopOrds, ord)
		}
		bouts := x.execBlockM([]*State{b}, body.List)
		if len(x.frames) == 1 {
			x.loopOrds = x.loopOrds[:len(x.loopOrds)-1]
		}
		x.blockDepth = savedDepth
		ends := append([]*State{}, lc.conts...)
		ends = append(ends, bouts...)
		for _, e := range ends {
			if e == nil || e.dead {
				continue
			}
			if post != nil {
				e = x.execStmt(e, post)
				if e == nil {
					continue
				}
			}
			x.loopFrameOblige(e, frameNames, ord, "preserved", x.pos(pos))
			if spec != nil {
				for _, inv := range spec.Invariants {
					x.goalMode = true
					g := x.evalClause(e, inv)
					x.goalMode = false
					x.curTag = fmt.Sprintf("loop%d.inv#%d", ord, inv.Ord)
					x.obligeNamed(e, fmt.Sprintf("%s/loop%d.inv#%d.preserved", top, ord, inv.Ord), "invariant", g, x.pos(pos), inv.Text)
					x.curTag = ""
				}
				if dec0 != nil {
					d1 := x.evalClauseVal(e, spec.Decreases)
					var g *Term
					if d1.S == SInt {
						g = And(Cmp("<", d1, dec0), Cmp("<=", IntLit(0), dec0))
					} else {
						g = And(Cmp("<=", d1, Arith("-", dec0, RealLitF(1))), Cmp("<=", RealLitF(0), dec0))
					}
					x.obligeNamed(e, fmt.Sprintf("%s/loop%d.decreases", top, ord), "decreases", g, x.pos(pos), spec.Decreases.Text)
				}
			}
		}
	}
	f.loops = f.loops[:len(f.loops)-1]
	outs := append([]*State{exit}, lc.breaks...)
	return x.merge(h, outs...)
}

func (x *Exec) evalClauseVal(s *State, c *Clause) *Term {
	x.clauseInfo = append(x.clauseInfo, c.Info)
	x.clauseDepth++
	defer func() { x.clauseInfo = x.clauseInfo[:len(x.clauseInfo)-1]; x.clauseDepth-- }()
	return x.eval(s, c.Expr)
}

func (x *Exec) execRange(s *State, n *ast.RangeStmt) *State {
	f := x.frame()
	ord := x.nextLoopOrd(f, n)
	label := f.label
	f.label = ""
	spec := x.loopSpec(ord)
	rt := x.typeOf(n.X)
	coll := x.eval(s, n.X)
	if s.dead {
		return nil
	}
	// hidden index
	idxObj := types.NewVar(n.Pos(), nil, fmt.Sprintf("$range%d", ord), types.Typ[types.Int])
	s.env[idxObj] = IntLit(0)
	if f.rangeIdx == nil {
		f.rangeIdx = map[int]types.Object{}
	}
	f.rangeIdx[ord] = idxObj
	if f.rangeColl == nil {
		f.rangeColl = map[int]*Term{}
	}
	f.rangeColl[ord] = coll // rangeSlice[T](ord) in invariants: the (unnamed) operand of this range loop
	var keyObj, valObj types.Object
	if id, ok := n.Key.(*ast.Ident); ok && id.Name != "_" {
		keyObj = x.objOf(id)
	}
	if n.Value != nil {
		if id, ok := n.Value.(*ast.Ident); ok && id.Name != "_" {
			valObj = x.objOf(id)
		}
	}
	var length *Term
	var elemAt func(st *State, i *Term) *Term
	switch u := rt.Underlying().(type) {
	case *types.Slice:
		length = Field(coll, 2)
		es := x.eng.tm.sortOf(u.Elem())
		elemAt = func(st *State, i *Term) *Term {
			return Select(Select(x.memGet(st, es), Field(coll, 0)), Arith("+", Field(coll, 1), i))
		}
	case *types.Array:
		length = IntLit(u.Len())
		elemAt = func(st *State, i *Term) *Term { return arrGet(coll, i, u.Len()) }
	case *types.Basic:
		if isInteger(rt) {
			length = coll
		} else if isString(rt) {
			// ranging over runes: abstract: index advances by >=1, value havoc
			// every byte index is visited (a superset of the rune starts the real loop visits); the rune at an ASCII byte
			// is that byte, at any other byte some value >= 0x80 (a decoded multi-byte rune or RuneError 0xFFFD)
			x.abstract("range over string (every byte index visited; rune == byte for ASCII bytes, >= 0x80 otherwise)")
			length = Field(coll, 2)
			elemAt = func(st *State, i *Term) *Term {
				r := x.freshVar("rune", SInt)
				b := x.strByte(coll, i)
				st.assume(And(Implies(Cmp("<", b, IntLit(128)), Eq(r, b)), Implies(Cmp(">=", b, IntLit(128)), And(Cmp(">=", r, IntLit(128)), Cmp("<=", r, IntLit(0x10FFFF))))))
				return r
			}
		}
	case *types.Pointer:
		if at, ok := u.Elem().Underlying().(*types.Array); ok {
			length = IntLit(at.Len())
			arr := x.loadDeref(s, coll, u.Elem(), n.Pos())
			elemAt = func(st *State, i *Term) *Term { return arrGet(arr, i, at.Len()) }
		}
	case *types.Map:
		// arbitrary enumeration: abstract iteration count, key/value havoc'd, key in domain
		x.abstract("range over map (arbitrary order)")
		length = x.freshVar("maplen", SInt)
		s.assume(Cmp("<=", IntLit(0), length))
		mt := u
		elemAt = nil
		pre := func(st *State) {
			k := x.havocValue(st, "mapkey", mt.Key())
			st.assume(x.mapHas(st, rt, coll, k))
			if keyObj != nil {
				st.env[keyObj] = k
			}
			if valObj != nil {
				st.env[valObj] = x.mapLoad(st, rt, coll, k)
			}
		}
		if keyObj != nil {
			s.env[keyObj] = x.zero(mt.Key())
		}
		if valObj != nil {
			s.env[valObj] = x.zero(mt.Elem())
		}
		return x.rangeLoop(s, n, ord, label, spec, idxObj, nil, nil, length, pre)
	}
	if length == nil {
		x.abstract("range over " + rt.String())
		x.havocAllHeap(s)
		return s
	}
	if keyObj != nil {
		s.env[keyObj] = IntLit(0)
	}
	if valObj != nil {
		s.env[valObj] = x.zero(valObj.Type())
	}
	pre := func(st *State) {
		i := st.env[idxObj]
		if keyObj != nil {
			st.env[keyObj] = i
		}
		if valObj != nil && elemAt != nil {
			st.env[valObj] = elemAt(st, i)
		}
	}
	return x.rangeLoop(s, n, ord, label, spec, idxObj, keyObj, valObj, length, pre)
}

func (x *Exec) rangeLoop(s *State, n *ast.RangeStmt, ord int, label string, spec *LoopSpec, idxObj, keyObj, valObj types.Object, length *Term, pre func(*State)) *State {
	f := x.frame()
	top := x.top.Key
	delete(f.iterStarts, ord)
	ws := &writeSet{vars: map[types.Object]bool{}}
	x.collectWrites(ws, n.Body)
	ws.vars[idxObj] = true
	if keyObj != nil {
		ws.vars[keyObj] = true
	}
	if valObj != nil {
		ws.vars[valObj] = true
	}
	// the key variable tracks the hidden index at the loop head
	bindKey := func(st *State) {
		if keyObj != nil && isInteger(keyObj.Type()) {
			st.env[keyObj] = st.env[idxObj]
		}
	}
	bindKey(s)
	if spec != nil {
		for _, inv := range spec.Invariants {
			x.goalMode = true
			g := x.evalClause(s, inv)
			x.goalMode = false
			x.obligeNamed(s, fmt.Sprintf("%s/loop%d.inv#%d.entry", top, ord, inv.Ord), "invariant", g, x.pos(n.Pos()), inv.Text)
		}
	}
	frameNames := x.loopFrameNames(ws, s)
	x.loopFrameOblige(s, frameNames, ord, "entry", x.pos(n.Pos()))
	h := s.clone()
	x.loopCallGap(h, n.Body) // an unknown number of iterations may have called out of the module ...
	h.log = append(h.log, logGap)
	x.havocVars(h, ws)
	x.loopFrameAssume(h, frameNames)
	i := h.env[idxObj]
	h.assume(And(Cmp("<=", IntLit(0), i), Cmp("<=", i, length)))
	bindKey(h)
	if spec != nil {
		for _, inv := range spec.Invariants {
			t := x.evalClause(h, inv)
			x.tagHyp(t, fmt.Sprintf("loop%d.inv#%d", ord, inv.Ord))
			h.assume(t)
		}
	} else if len(x.frames) == 1 && x.dry == 0 {
		x.note("%s: loop %d has no invariant (havoc only)", x.pos(n.Pos()), ord)
	}
	lc := &loopCtx{label: label, body: n.Body.List}
	f.loops = append(f.loops, lc)
	exit := h.clone()
	exit.assume(Cmp(">=", i, length))
	b := h.clone()
	b.assume(Cmp("<", i, length))
	pre(b)
	// snapshot for iterStart(ord, e): after the range variables of this iteration are assigned
	if f.iterStarts == nil {
		f.iterStarts = map[int]*State{}
	}
	f.iterStarts[ord] = b.clone()
	savedDepth := x.blockDepth
	x.blockDepth = 0
	if len(x.frames) == 1 {
		x.loopOrds = append(x.loopOrds, ord)
	}
	bouts := x.execBlockM([]*State{b}, n.Body.List)
	if len(x.frames) == 1 {
		x.loopOrds = x.loopOrds[:len(x.loopOrds)-1]
	}
	x.blockDepth = savedDepth
	ends := append([]*State{}, lc.conts...)
	ends = append(ends, bouts...)
	for _, e := range ends {
		if e == nil || e.dead {
			continue
		}
		e.env[idxObj] = Arith("+", i, IntLit(1))
		bindKey(e)
		x.loopFrameOblige(e, frameNames, ord, "preserved", x.pos(n.Pos()))
		if spec != nil {
			for _, inv := range spec.Invariants {
				x.goalMode = true
				g := x.evalClause(e, inv)
				x.goalMode = false
				x.curTag = fmt.Sprintf("loop%d.inv#%d", ord, inv.Ord)
				x.obligeNamed(e, fmt.Sprintf("%s/loop%d.inv#%d.preserved", top, ord, inv.Ord), "invariant", g, x.pos(n.Pos()), inv.Text)
				x.curTag = ""
			}
		}
	}
	f.loops = f.loops[:len(f.loops)-1]
	outs := append([]*State{exit}, lc.breaks...)
	return x.merge(h, outs...)
}

func (x *Exec) tagHyp(t *Term, tag string) {
	if x.hypTags == nil {
		x.hypTags = map[*Term]string{}
	}
	if t.K == TApp && t.Op == "and" {
		for _, a := range t.Args {
			x.hypTags[a] = tag
		}
	}
	x.hypTags[t] = tag
}

// callWriteNames names the heap arrays a call may write; false => unknown
func (x *Exec) callWriteNames(call *ast.CallExpr, add func(string)) bool {
	obj := x.calleeObj(call)
	switch o := obj.(type) {
	case *types.Builtin:
		switch o.Name() {
		case "append", "copy":
			t := x.typeOf(call.Args[0])
			if st, ok := t.Underlying().(*types.Slice); ok {
				add(memName(x.eng.tm.sortOf(st.Elem())))
				add("$balloc")
				return true
			}
		case "make":
			t := x.typeOf(call.Args[0])
			switch u := t.Underlying().(type) {
			case *types.Slice:
				add(memName(x.eng.tm.sortOf(u.Elem())))
				add("$balloc")
				return true
			case *types.Map:
				_, dn, _, _ := x.mapNames(t)
				add(dn)
				add("$alloc")
				return true
			}
		case "new":
			t := x.typeOf(call.Args[0])
			add("$alloc")
			if isStruct(t) {
				si := x.eng.tm.structOf(t)
				for i := range si.fields {
					add(fieldHeapName(si, i))
				}
				return true
			}
		case "delete":
			t := x.typeOf(call.Args[0])
			_, dn, _, _ := x.mapNames(t)
			add(dn)
			return true
		}
		return false
	case *types.Func:
		fi := x.eng.funcs[o.Origin()]
		if fi == nil {
			if o.Pkg() != nil && pureExternalPkgs[o.Pkg().Path()] && !extCallPure(o) {
				return x.callbackWriteNames(call, add)
			}
			return false
		}
		ct := x.eng.contracts[fi.Obj]
		if ct == nil || !ct.HasAssign {
			return false
		}
		add("$alloc")
		add("$balloc")
		for i, a := range ct.Assigns {
			if a == "*" {
				return false
			}
			e := ct.AssignsE[i]
			switch n := e.(type) {
			case *ast.CallExpr: // mem(e)
				if len(n.Args) == 1 {
					if st, ok := ct.AssignsI.TypeOf(n.Args[0]).Underlying().(*types.Slice); ok {
						add(memName(x.eng.tm.sortOf(st.Elem())))
						continue
					}
				}
				return false
			case *ast.SelectorExpr:
				sel := ct.AssignsI.Selections[n]
				bt := ct.AssignsI.TypeOf(n.X)
				if sel != nil && bt != nil && isPointer(bt) && len(sel.Index()) == 1 {
					si := x.eng.tm.structOf(elemOfPointer(bt))
					add(fieldHeapName(si, sel.Index()[0]))
					continue
				}
				return false
			case *ast.StarExpr:
				bt := ct.AssignsI.TypeOf(n.X)
				if bt != nil && isPointer(bt) && isStruct(elemOfPointer(bt)) {
					si := x.eng.tm.structOf(elemOfPointer(bt))
					for i := range si.fields {
						add(fieldHeapName(si, i))
					}
					continue
				}
				return false
			case *ast.Ident:
				if v, ok := ct.AssignsI.ObjectOf(n).(*types.Var); ok && x.isGlobal(v) {
					add(x.globalName(v))
					continue
				}
				return false
			default:
				return false
			}
		}
		return true
	}
	return false
}

// loopCallGap records, at a loop head, that an unknown number of iterations may have made calls: the ghost call log
// gets a gap that names what the loop body can call (the names of the external / logged calls it contains and the
// callee sets of its modular calls); if the body contains a call whose target is not statically known, the whole log
// is forgotten.
func (x *Exec) loopCallGap(h *State, nodes ...ast.Node) {
	g := &mergeGap{names: map[string]bool{}}
	info := x.frame().info
	for _, nd := range nodes {
		if nd == nil {
			continue
		}
		ast.Inspect(nd, func(n ast.Node) bool {
			call, ok := n.(*ast.CallExpr)
			if !ok {
				return true
			}
			if tv, ok := info.Types[call.Fun]; ok && tv.IsType() {
				return true
			}
			var obj types.Object
			switch f := unparen(call.Fun).(type) {
			case *ast.Ident:
				obj = info.ObjectOf(f)
			case *ast.SelectorExpr:
				obj = info.ObjectOf(f.Sel)
			case *ast.IndexExpr:
				switch gx := f.X.(type) {
				case *ast.Ident:
					obj = info.ObjectOf(gx)
				case *ast.SelectorExpr:
					obj = info.ObjectOf(gx.Sel)
				}
			}
			switch o := obj.(type) {
			case *types.Builtin:
			case *types.Func:
				if c := x.eng.funcs[o.Origin()]; c != nil {
					g.names["@"+c.Key] = true
					g.infos = append(g.infos, x.eng.callsOf(c))
				} else {
					g.names[o.FullName()] = true
				}
			case *types.Var:
				// a local closure: its body is part of the loop body's syntax only if it is defined inside; a function
				// value from elsewhere may call anything
				if fl := x.closureLit(o); fl != nil {
					// walk the closure's body as part of this loop
					ast.Inspect(fl.Body, func(m ast.Node) bool {
						if c2, ok := m.(*ast.CallExpr); ok {
							if o2 := x.calleeObj(c2); o2 != nil {
								if f2, ok := o2.(*types.Func); ok {
									if c := x.eng.funcs[f2.Origin()]; c != nil {
										g.names["@"+c.Key] = true
										g.infos = append(g.infos, x.eng.callsOf(c))
									} else {
										g.names[f2.FullName()] = true
									}
									return true
								}
								if _, ok := o2.(*types.Builtin); ok {
									return true
								}
							}
							if tv, ok := info.Types[c2.Fun]; ok && tv.IsType() {
								return true
							}
							g.all = true
						}
						return true
					})
				} else {
					g.all = true
				}
			default:
				if _, isLit := unparen(call.Fun).(*ast.FuncLit); !isLit {
					g.all = true
				}
			}
			return true
		})
	}
	if g.all {
		h.calls, h.callsOpen = nil, true
		return
	}
	h.calls = append(append([]callRec(nil), h.calls...), callRec{name: "?", mg: g})
}

func (x *Exec) closureLit(o types.Object) *ast.FuncLit {
	for i := len(x.frames) - 1; i >= 0; i-- {
		if fl, ok := x.frames[i].closures[o]; ok {
			return fl
		}
	}
	return nil
}
