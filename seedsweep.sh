#!/bin/sh
# seedsweep.sh [seed-id ...] : run the claimed check of each seeded change on a scratch worktree of /repo HEAD
# (never touches /repo's working tree). Results: /verif/seeded/RESULTS.tsv  (id, property, outcome, obligations)
DIR=$(cd "$(dirname "$0")" && pwd)
W=/var/tmp/sweep.$$
mkdir -p $W/v
git -C /repo worktree add --detach $W/repo HEAD >/dev/null 2>&1 || { echo "worktree failed"; exit 2; }
cp $DIR/known_findings.json $W/v/
ids="$@"
[ -z "$ids" ] && ids=$(ls $DIR/seeded | grep '^C')
OUT=$DIR/seeded/RESULTS.tsv
[ -z "$1" ] && : > $OUT
for id in $ids; do
  S=$DIR/seeded/$id
  [ -f $S/patch.diff ] || continue
  P=$(jq -r .property $S/meta.json)
  if ! jq -e --arg p $P '.checks[]|select(.property_id==$p)' $DIR/MANIFEST.json >/dev/null; then
    echo "$id	$P	not-claimed	" | tee -a $OUT; continue
  fi
  if ! git -C $W/repo apply $S/patch.diff 2>/dev/null; then
    echo "$id	$P	patch-does-not-apply	" | tee -a $OUT; continue
  fi
  out=$(GOVC_NORETRY=1 $DIR/bin/govc check $P --repo $W/repo --verif $W/v --no-evidence 2>&1); r=$?
  git -C $W/repo checkout -- . ; git -C $W/repo clean -fdq
  v=$(echo "$out" | grep '^VIOLATION' | sed 's/.*replay=[^ ]*\///' | tr '\n' ',' )
  if [ $r -eq 1 ]; then o=DETECTED; elif [ $r -eq 0 ]; then o=missed; else o="broken($r)"; fi
  echo "$id	$P	$o	$v" | tee -a $OUT
done
git -C /repo worktree remove --force $W/repo
rm -rf $W
