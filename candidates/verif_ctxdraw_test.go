//go:build verif

package canvas

import "testing"

// Candidate defect (C15, Context.DrawPath): the stroke paint is dropped for a path whose first dash gap covers it
// (checkDash fails), but the local style is never restored, so EVERY later path of the same DrawPath call loses its
// stroke as well, although checkDash succeeds for it.
func TestVerifDrawPathStrokeLeaksAcrossPaths(t *testing.T) {
	short := &Path{}
	short.MoveTo(0, 0)
	short.LineTo(2, 0) // length 2: inside the first gap of the pattern below
	long := &Path{}
	long.MoveTo(0, 10)
	long.LineTo(100, 10) // length 100: several dashes

	draw := func(paths ...*Path) []layer {
		cv := New(200, 200)
		ctx := NewContext(cv)
		ctx.SetFillColor(Transparent)
		ctx.SetStrokeColor(Black)
		ctx.SetStrokeWidth(1)
		ctx.SetDashes(5, 5, 7) // offset 5 into the pattern dash 5, gap 7: the pattern starts with the gap of 7
		ctx.DrawPath(0, 0, paths...)
		return cv.layers[0]
	}

	alone := draw(long)
	if len(alone) != 1 || !alone[0].style.HasStroke() {
		t.Fatalf("long path drawn alone must keep its stroke: %v", alone)
	}
	both := draw(short, long)
	if len(both) != 2 {
		t.Fatalf("expected two layers, got %d", len(both))
	}
	if both[0].style.HasStroke() {
		t.Fatalf("short path lies in a gap: no stroke expected")
	}
	if !both[1].style.HasStroke() {
		t.Errorf("long path lost its stroke because the PREVIOUS path failed checkDash (style.Stroke is not restored per path)")
	}
}
