package canvas

import (
	"math"
	"testing"
)

// Open candidate: the closed form of quadraticBezierLength divides by zero for a quadratic Bezier whose control
// point lies on the line through the end points but beyond one of them (a legitimate curve that overshoots and
// returns): Length() is NaN.
func TestVerifQuadLengthCollinearOvershoot(t *testing.T) {
	p := &Path{}
	p.MoveTo(0, 0)
	p.QuadTo(5, 0, 3, 0)
	if l := p.Length(); math.IsNaN(l) || math.Abs(l-(25.0/7.0+4.0/7.0)) > 1e-6 {
		// the curve runs from 0 to its turning point 25/7 and back to 3
		t.Errorf("path %v: Length() = %v, want %v", p, l, 25.0/7.0+4.0/7.0)
	}
}
