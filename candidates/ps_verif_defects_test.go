package ps

import (
	"bytes"
	"image/color"
	"strings"
	"testing"

	"github.com/tdewolff/canvas"
)

// Candidate genuine defect found while writing the PS paint-cache contracts (verif_contracts.go): setPaint decides
// whether to emit a colour operator by comparing the NON-premultiplied new colour with the PREMULTIPLIED cached
// colour. A half-transparent red (premultiplied 128,0,0,128 = setrgbcolor 1 0 0) followed by an opaque dark red
// (128,0,0,255 = setrgbcolor .5 0 0) emits no colour operator: the second path is painted bright red.
func TestDefectSetPaintComparesPremultiplied(t *testing.T) {
	buf := &bytes.Buffer{}
	r := New(buf, 100, 100, nil)
	style := canvas.DefaultStyle
	style.Fill = canvas.Paint{Color: color.RGBA{128, 0, 0, 128}}
	r.RenderPath(canvas.Rectangle(10, 10), style, canvas.Identity)
	mark := buf.Len()
	style.Fill = canvas.Paint{Color: color.RGBA{128, 0, 0, 255}}
	r.RenderPath(canvas.Rectangle(10, 10), style, canvas.Identity)
	second := buf.String()[mark:]
	if !strings.Contains(second, "setrgbcolor") {
		t.Errorf("colour changed from (255,0,0) to (128,0,0) non-premultiplied but no colour operator was written: %q", second)
	}
}
