package canvas

import (
	"math"
	"testing"
)

func TestVerifEllipseToCenterChordEqualsRadius(t *testing.T) {
	// arc of radius 10 from (0,0) to (10,0): the chord is as long as the radius, the arc spans 60 degrees
	cx, cy, t0, t1 := ellipseToCenter(0, 0, 10, 10, 0, false, true, 10, 0)
	s := EllipsePos(10, 10, 0, cx, cy, t0)
	e := EllipsePos(10, 10, 0, cx, cy, t1)
	if math.Hypot(s.X-0, s.Y-0) > 1e-6 || math.Hypot(e.X-10, e.Y-0) > 1e-6 {
		t.Errorf("centre (%v,%v) angles %v..%v: start %v end %v", cx, cy, t0, t1, s, e)
	}
	p := &Path{}
	p.MoveTo(0, 0)
	p.ArcTo(10, 10, 0, false, true, 10, 0)
	b := p.Bounds()
	if math.Abs(b.Y0-(-(10-math.Sqrt(75)))) > 1e-6 || b.X0 < -1e-9 {
		t.Errorf("Bounds %v, want (0,-1.3397)-(10,0)", b)
	}
	if l := p.Length(); math.Abs(l-10*math.Pi/3) > 1e-4 {
		t.Errorf("Length %v want %v", l, 10*math.Pi/3)
	}
	f := p.Flatten(0.01)
	fb := f.Bounds()
	if fb.Y0 < -1.5 || fb.X0 < -0.1 {
		t.Errorf("flattened bounds %v", fb)
	}
}
