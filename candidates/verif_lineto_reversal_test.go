package canvas

import "testing"

func TestVerifLineToReversal(t *testing.T) {
	for _, c := range []struct{ x1, y1, x2, y2 float64 }{
		{-10, 0, -5, 0}, // back along a leftward line
		{10, 0, 5, 0},   // back along a rightward line
		{0, -10, 0, -5}, // back along a downward line
		{0, 10, 0, 5},
		{-10, -1, -5, -0.5},
		{-1, -10, -0.5, -5},
		{-10, 5, -5, 2.5},
	} {
		p := &Path{}
		p.MoveTo(0, 0)
		p.LineTo(c.x1, c.y1)
		p.LineTo(c.x2, c.y2)
		if got := p.Length(); got < 14.0 {
			t.Errorf("%v: path %v has length %v: the reversing segment replaced the previous one", c, p, got)
		}
	}
}
