//go:build verif

package pdf

import (
	"bytes"
	"fmt"
	"regexp"
	"strings"
	"testing"

	"github.com/tdewolff/canvas"
)

// Candidate defects of the PDF document writer (property C13), found while writing the contracts in
// verif_contracts_doc.go. Every test FAILS against the unmodified library.

func closeRecover(w *pdfWriter) (err error) {
	defer func() {
		if r := recover(); r != nil {
			err = fmt.Errorf("panic: %v", r)
		}
	}()
	return w.Close()
}

// D1 (totality of writeVal): a gradient with three or more stops (or two stops not at offsets 0 and 1) gets a
// stitching function whose /Functions entry is a Go []pdfDict; writeVal has no case for []pdfDict and panics when
// the page is written ("unknown PDF type []pdf.pdfDict").
func TestVerifDocGradientThreeStopsPanics(t *testing.T) {
	buf := &bytes.Buffer{}
	w := newPDFWriter(buf)
	page := w.NewPage(100.0, 100.0)
	g := canvas.NewLinearGradient(canvas.Point{0, 0}, canvas.Point{100, 0})
	g.Add(0.0, canvas.Red)
	g.Add(0.5, canvas.Lime)
	g.Add(1.0, canvas.Blue)
	page.SetFill(canvas.Paint{Gradient: g})
	if err := closeRecover(w); err != nil {
		t.Errorf("Close of a document with a 3-stop gradient: %v", err)
	}
}

// the same through two stops that do not sit at 0 and 1
func TestVerifDocGradientInnerStopsPanics(t *testing.T) {
	buf := &bytes.Buffer{}
	w := newPDFWriter(buf)
	page := w.NewPage(100.0, 100.0)
	g := canvas.NewLinearGradient(canvas.Point{0, 0}, canvas.Point{100, 0})
	g.Add(0.25, canvas.Red)
	g.Add(0.75, canvas.Blue)
	page.SetFill(canvas.Paint{Gradient: g})
	if err := closeRecover(w); err != nil {
		t.Errorf("Close of a document with a gradient whose stops are at 0.25 and 0.75: %v", err)
	}
}

// D2: the stitching function (PDF 32000-1, 7.10.4) needs k-1 /Bounds for k /Functions, in increasing order, and they
// are the interior stop offsets. patternStopsFunction appends stops[1].Offset for every interior stop (index typo: i)
// and appends no bound in front of the trailing constant function (last offset != 1).
func TestVerifDocGradientBounds(t *testing.T) {
	stops := canvas.Stops{}
	stops.Add(0.0, canvas.Red)
	stops.Add(0.25, canvas.Lime)
	stops.Add(0.5, canvas.Blue)
	stops.Add(1.0, canvas.Black)
	f := patternStopsFunction(stops)
	bounds, _ := f["Bounds"].(pdfArray)
	if want := (pdfArray{0.25, 0.5}); fmt.Sprint(bounds) != fmt.Sprint(want) {
		t.Errorf("stops at 0, 0.25, 0.5, 1: /Bounds = %v, want %v", bounds, want)
	}

	stops = canvas.Stops{}
	stops.Add(0.0, canvas.Red)
	stops.Add(0.5, canvas.Lime)
	stops.Add(0.75, canvas.Blue)
	f = patternStopsFunction(stops)
	bounds, _ = f["Bounds"].(pdfArray)
	fs, _ := f["Functions"].(pdfArray)
	if len(bounds) != len(fs)-1 {
		t.Errorf("stops at 0, 0.5, 0.75: %d /Functions but %d /Bounds (%v), want %d", len(fs), len(bounds), bounds, len(fs)-1)
	}
}

// D3: a fully transparent gradient stop divides by its alpha (0): the colour components become NaN and are written
// as the token "NaN", which is not a PDF number.
func TestVerifDocGradientTransparentStop(t *testing.T) {
	buf := &bytes.Buffer{}
	w := newPDFWriter(buf)
	w.SetCompression(false)
	page := w.NewPage(100.0, 100.0)
	g := canvas.NewLinearGradient(canvas.Point{0, 0}, canvas.Point{100, 0})
	g.Add(0.0, canvas.Transparent)
	g.Add(1.0, canvas.Blue)
	page.SetFill(canvas.Paint{Gradient: g})
	if err := closeRecover(w); err != nil {
		t.Fatal(err)
	}
	if i := strings.Index(buf.String(), "NaN"); i != -1 {
		t.Errorf("PDF contains the token NaN: ...%s...", buf.String()[i-20:i+20])
	}
}

// D4 (candidate finding F7): the catalog's /Lang entry holds the creator string instead of the language.
func TestVerifDocLangIsCreator(t *testing.T) {
	buf := &bytes.Buffer{}
	w := newPDFWriter(buf)
	w.SetCompression(false)
	w.NewPage(100.0, 100.0)
	w.SetCreator("the-creator")
	w.SetLang("es-CL")
	if err := w.Close(); err != nil {
		t.Fatal(err)
	}
	m := regexp.MustCompile(`/Lang\(([^)]*)\)`).FindStringSubmatch(buf.String())
	if m == nil {
		t.Fatalf("no /Lang entry in the catalog")
	} else if m[1] != "es-CL" {
		t.Errorf("/Lang = %q, want %q", m[1], "es-CL")
	}

	// and with no creator set, /Lang is the empty string
	buf = &bytes.Buffer{}
	w = newPDFWriter(buf)
	w.NewPage(100.0, 100.0)
	w.SetLang("nl")
	if err := w.Close(); err != nil {
		t.Fatal(err)
	}
	m = regexp.MustCompile(`/Lang\(([^)]*)\)`).FindStringSubmatch(buf.String())
	if m == nil || m[1] != "nl" {
		t.Errorf("/Lang = %q, want %q", m, "nl")
	}
}
