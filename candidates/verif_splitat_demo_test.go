//go:build verifdemo

package canvas

import "testing"

// Demonstrations for the report of wk-splitat (not contracts): behaviour of the real SplitAt.

// F6: SplitAt on a path with two subpaths reads the coordinates of the second subpath from p.d with an index
// into ps.d and never emits the second MoveTo.
func TestVerifSplitAtMultiSubpath(t *testing.T) {
	p := MustParseSVGPath("M0 0L10 0M20 5L30 5")
	qs := p.SplitAt(5.0)
	s := ""
	for _, q := range qs {
		s += q.String() + " | "
	}
	t.Logf("pieces: %s", s)
	total := 0.0
	for _, q := range qs {
		total += q.Length()
	}
	if !Equal(total, p.Length()) {
		t.Errorf("piece lengths sum to %v, path length is %v", total, p.Length())
	}
}

// A repeated (or closer than Epsilon) cut position yields a piece that consists of a MoveTo only.
func TestVerifSplitAtDuplicateCut(t *testing.T) {
	p := MustParseSVGPath("M0 0L10 0")
	qs := p.SplitAt(5.0, 5.0)
	for k, q := range qs {
		t.Logf("piece %d: %q len(d)=%d", k, q.String(), len(q.d))
		if q.Empty() {
			t.Errorf("piece %d is empty (MoveTo only)", k)
		}
	}
}
