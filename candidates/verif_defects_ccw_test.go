//go:build verif

package canvas

import "testing"

// Candidate defect found while repairing Path.CCW (independent of that repair: same result before and after it).
//
// A clockwise circle is reported counter-clockwise. XMonotone returns the second arc with an end point that differs from
// the start point (3,0) by rounding only: (3,-1.8e-16). It is "equally right and lower", so it is chosen as the
// bottom-right-most vertex (k == kMax, the index of the zero-length Close record), and the edge that leaves it is taken
// to be the closing segment, a vector of length 1.8e-16 pointing straight up, instead of the first arc. The angles are
// then equal, the curvature of the "straight" closing segment is 0, and 0 < 1/3 says counter-clockwise.
// direction() and curvature() skip a trailing zero-length Close (the incoming side at the start point is right); the
// outgoing side at the last vertex is not treated the same way.
// Suggested repair (on top of ccw_fix.patch): ccw_followup_pointclosed.patch, i.e. after "kMax -= cmdLen(CloseCmd)":
//
//	if k == kMax && (Point{p.d[k-3], p.d[k-2]}).Equals(Point{p.d[1], p.d[2]}) { k = 4 }
func TestVerifCCWReversedCircle(t *testing.T) {
	for _, p := range []*Path{Circle(3), Ellipse(4, 2)} {
		if !p.CCW() {
			t.Errorf("%v: CCW() = false for a counter-clockwise contour", p)
		}
		r := p.Reverse()
		t.Log(r, "-> XMonotone:", r.XMonotone())
		if r.CCW() {
			t.Errorf("%v: CCW() = true for a clockwise contour", r)
		}
		if f := r.Filling(Positive); len(f) != 1 || f[0] {
			t.Errorf("%v: Filling(Positive) = %v for a clockwise contour", r, f)
		}
	}
}
