//go:build verif

package pdf

import (
	"testing"
	"unicode/utf16"
)

// specUTF16 (the arithmetic definition used in the writeFont contract) agrees with unicode/utf16 and with the
// writer's shift/mask expression on every code point.
func TestSpecUTF16(t *testing.T) {
	for u := 0; u <= 0x10FFFF; u++ {
		want := u
		if 0x10000 <= u {
			hi, lo := utf16.EncodeRune(rune(u))
			want = int(hi)*65536 + int(lo)
			if utf16.DecodeRune(rune(specHiSurrogate(specUTF16(u))), rune(specLoSurrogate(specUTF16(u)))) != rune(u) {
				t.Fatalf("U+%X: surrogates do not decode", u)
			}
		}
		unicode := uint32(u)
		if 0x010000 <= unicode && unicode <= 0x10FFFF {
			unicode -= 0x10000
			unicode = (0xD800+(unicode>>10)&0x3FF)<<16 + 0xDC00 + unicode&0x3FF
		}
		if specUTF16(u) != want || int(unicode) != want {
			t.Fatalf("U+%X: spec %X writer %X utf16 %X", u, specUTF16(u), unicode, want)
		}
	}
}
