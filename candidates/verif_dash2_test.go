//go:build verifdemo

package canvas

import (
	"math"
	"testing"
)

// Demonstration for the candidate defect found while putting Path.Dash under contract (C05): Dash assumes that
// SplitAt returns exactly one piece per cut plus one. When the stretch after the last cut is longer than Epsilon
// (so Dash does record the cut) but its end points agree within Epsilon in both coordinates (a diagonal stretch of
// length between Epsilon and sqrt(2)*Epsilon), SplitAt's LineTo ignores that stretch and the last piece is not
// returned. Dash then takes pd[len(pd)-1], which is the last GAP, for the last dash: here the whole line is drawn
// although the pattern prescribes a dash of 0.5 followed by a gap that covers the rest.
// Run: go test -tags verifdemo -run TestVerifDashTailPieceDropped .   (FAILS on the current code)
func TestVerifDashTailPieceDropped(t *testing.T) {
	p := &Path{}
	p.MoveTo(0, 0)
	p.LineTo(1, 1)
	L := p.Length()
	d0 := 0.5
	d1 := L - 0.5 - 1.2*Epsilon // the second cut lies 1.2*Epsilon before the end
	pd := p.SplitAt(0.5, L-1.2*Epsilon)
	t.Logf("SplitAt returns %d pieces for 2 cuts: %v", len(pd), pd)
	q := p.Dash(0.0, d0, d1)
	t.Logf("Dash: %v, drawn length %v", q, q.Length())
	if math.Abs(q.Length()-d0) > 1e-6 {
		t.Errorf("drawn length %v, the pattern prescribes %v (the gap was drawn)", q.Length(), d0)
	}
}
