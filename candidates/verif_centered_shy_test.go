//go:build verif_findings

package text

import (
	"os"
	"testing"

	"github.com/tdewolff/font"
)

// Candidate finding (C16, GlyphsToItems): for align == Centered a soft hyphen (U+00AD) or zero-width space
// (U+200B) glyph produces no item and no Size increment ("// nothing" branch), so the Sizes of the items add up to
// len(glyphs) minus the number of such glyphs. LinebreakGlyphs maps items back to glyphs by adding up Sizes, so after
// the first soft hyphen every glyph is taken one position too early: the invisible soft hyphen glyph is emitted
// as part of a word and the last glyph of the text is lost.
func TestCenteredSoftHyphenNotCountedF(t *testing.T) {
	b, err := os.ReadFile("../resources/DejaVuSerif.ttf")
	if err != nil {
		t.Skip(err)
	}
	sfnt, err := font.ParseSFNT(b, 0)
	if err != nil {
		t.Fatal(err)
	}
	s := "ab\u00ADcd ef"
	glyphs := []Glyph{}
	for i, r := range []rune(s) {
		id := sfnt.GlyphIndex(r)
		glyphs = append(glyphs, Glyph{SFNT: sfnt, Size: 12.0, ID: id, Cluster: uint32(i), XAdvance: int32(sfnt.GlyphAdvance(id)), Text: r})
	}
	for _, align := range []Align{Left, Right, Justified, Centered} {
		items := GlyphsToItems(append([]Glyph{}, glyphs...), 0.0, align)
		sum := 0
		for _, item := range items {
			sum += item.Size
		}
		if sum != len(glyphs) {
			t.Errorf("align=%v: item Sizes add up to %d, want len(glyphs) = %d", align, sum, len(glyphs))
		}

		lines := LinebreakGlyphs(sfnt, 12.0, append([]Glyph{}, glyphs...), 0.0, 1000.0, align, 0)
		out := ""
		for _, line := range lines {
			for _, g := range line {
				out += string(g.Text)
			}
			out += "|"
		}
		t.Logf("align=%v: %q", align, out)
		n := 0
		for _, line := range lines {
			for _, g := range line {
				if g.Text == '\u00AD' {
					t.Errorf("align=%v: the soft hyphen glyph itself is emitted: %q", align, out)
				}
				if g.Text == 'f' {
					n++
				}
			}
		}
		if n != 1 {
			t.Errorf("align=%v: last glyph 'f' appears %d times in %q, want once", align, n, out)
		}
	}
}
