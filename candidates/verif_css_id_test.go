package canvas

import "testing"

func TestVerifCSSIDSelector(t *testing.T) {
	svg := &svgParser{}
	svg.parseStyle([]byte(`#a { fill: red } .c { fill: blue } rect#b { fill: green }`))
	if len(svg.cssRules) != 3 {
		t.Fatalf("rules: %v", svg.cssRules)
	}
	elA := []svgElem{{tag: "rect", attrs: map[string]string{"id": "a"}}}
	elX := []svgElem{{tag: "circle", attrs: map[string]string{"id": "x"}}}
	elB := []svgElem{{tag: "rect", attrs: map[string]string{"id": "b"}}}
	if !svg.cssRules[0].AppliesTo(elA) {
		t.Errorf("#a does not apply to id=a: %v", svg.cssRules[0])
	}
	if svg.cssRules[0].AppliesTo(elX) {
		t.Errorf("#a applies to id=x: %v", svg.cssRules[0])
	}
	if svg.cssRules[1].AppliesTo(elX) {
		t.Errorf(".c applies to element without class: %v", svg.cssRules[1])
	}
	if !svg.cssRules[2].AppliesTo(elB) || svg.cssRules[2].AppliesTo(elA) {
		t.Errorf("rect#b: %v", svg.cssRules[2])
	}
}
