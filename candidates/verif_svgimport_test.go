package canvas

import (
	"math"
	"strings"
	"testing"
)

// Demonstrations for the C19 candidate findings (SVG import). Each test states what the SVG specification
// requires; a failing test demonstrates the defect against the real importer.

func verifLayers(t *testing.T, doc string) (*Canvas, []layer) {
	t.Helper()
	c, err := ParseSVG(strings.NewReader(doc))
	if err != nil {
		t.Fatalf("ParseSVG: %v", err)
	}
	return c, c.layers[c.zindex]
}

func verifBounds(l layer) Rect {
	return l.path.Copy().Transform(l.m).Bounds()
}

func verifNear(a, b float64) bool { return math.Abs(a-b) < 1e-6 }

const px = 25.4 / 96.0 // mm per CSS pixel

// baseline: viewBox only; y axis down, user units scaled by the viewBox (this is what the contracts of
// parseViewBox/init state).
func TestVerifSVGRectPlacement(t *testing.T) {
	c, ls := verifLayers(t, `<svg viewBox="0 0 100 100"><rect x="10" y="20" width="30" height="40"/></svg>`)
	if !verifNear(c.W, 100*px) || !verifNear(c.H, 100*px) {
		t.Fatalf("canvas size %v x %v, want %v", c.W, c.H, 100*px)
	}
	if len(ls) != 1 {
		t.Fatalf("%d layers", len(ls))
	}
	b := verifBounds(ls[0])
	if !verifNear(b.X0, 10*px) || !verifNear(b.X1, 40*px) || !verifNear(b.Y0, c.H-60*px) || !verifNear(b.Y1, c.H-20*px) {
		t.Fatalf("rect bounds %v", b)
	}
}

// F18: skewX/skewY are parsed and ignored. skewX(45) maps (x,y) to (x+y,y): a 10x10 square becomes a
// parallelogram 20 wide.
func TestVerifSVGSkewX(t *testing.T) {
	_, ls := verifLayers(t, `<svg viewBox="0 0 100 100"><rect transform="skewX(45)" x="0" y="0" width="10" height="10"/></svg>`)
	b := verifBounds(ls[0])
	if !verifNear(b.W(), 20*px) {
		t.Fatalf("skewX(45) ignored: width of the skewed 10x10 square is %v px, want 20 px", b.W()/px)
	}
}

func TestVerifSVGSkewY(t *testing.T) {
	_, ls := verifLayers(t, `<svg viewBox="0 0 100 100"><rect transform="skewY(45)" x="0" y="0" width="10" height="10"/></svg>`)
	b := verifBounds(ls[0])
	if !verifNear(b.H(), 20*px) {
		t.Fatalf("skewY(45) ignored: height of the skewed 10x10 square is %v px, want 20 px", b.H()/px)
	}
}

// width/height with absolute units: "a canvas of the specified size". 96px = 1in = 25.4mm.
func TestVerifSVGSizeUnits(t *testing.T) {
	for _, tc := range []struct {
		attr string
		mm   float64
	}{{"96px", 25.4}, {"96", 25.4}, {"25.4mm", 25.4}, {"1in", 25.4}, {"2.54cm", 25.4}, {"72pt", 25.4}} {
		c, _ := verifLayers(t, `<svg width="`+tc.attr+`" height="`+tc.attr+`" viewBox="0 0 96 96"><rect width="96" height="96"/></svg>`)
		if !verifNear(c.W, tc.mm) || !verifNear(c.H, tc.mm) {
			t.Errorf("width=height=%q: canvas %v x %v mm, want %v mm", tc.attr, c.W, c.H, tc.mm)
		}
	}
}

// g transform applies to the children and is popped afterwards
func TestVerifSVGGroupTransformPopped(t *testing.T) {
	_, ls := verifLayers(t, `<svg viewBox="0 0 100 100"><g transform="translate(50,0)"><rect width="10" height="10"/></g><rect width="10" height="10"/></svg>`)
	if len(ls) != 2 {
		t.Fatalf("%d layers", len(ls))
	}
	b0, b1 := verifBounds(ls[0]), verifBounds(ls[1])
	if !verifNear(b0.X0, 50*px) || !verifNear(b1.X0, 0) {
		t.Fatalf("group transform: first rect at x=%v px (want 50), second at x=%v px (want 0)", b0.X0/px, b1.X0/px)
	}
}

// fill-rule is a fill presentation attribute: evenodd must reach the style
func TestVerifSVGFillRule(t *testing.T) {
	_, ls := verifLayers(t, `<svg viewBox="0 0 100 100"><path fill-rule="evenodd" d="M0 0H30V30H0zM10 10H20V20H10z"/></svg>`)
	if ls[0].style.FillRule != EvenOdd {
		t.Fatalf("fill-rule=\"evenodd\" ignored: FillRule = %v", ls[0].style.FillRule)
	}
}

// stroke-miterlimit after stroke-linejoin (or with the default miter join) must change the limit
func TestVerifSVGMiterLimit(t *testing.T) {
	for _, attrs := range []string{`stroke-linejoin="miter" stroke-miterlimit="10"`, `stroke-miterlimit="10"`, `stroke-miterlimit="10" stroke-linejoin="miter"`} {
		_, ls := verifLayers(t, `<svg viewBox="0 0 100 100"><path stroke="black" `+attrs+` d="M0 0L10 0L10 10"/></svg>`)
		mj, ok := ls[0].style.StrokeJoiner.(MiterJoiner)
		if !ok || mj.Limit != 10.0 {
			t.Errorf("%s: joiner %v, want miter limit 10", attrs, ls[0].style.StrokeJoiner)
		}
	}
}

// rect with rx and ry: elliptical corners; rx only / ry only: the other defaults to it; clamped to half the size
func TestVerifSVGRectRadii(t *testing.T) {
	_, ls := verifLayers(t, `<svg viewBox="0 0 100 100"><rect width="40" height="40" rx="10" ry="5"/></svg>`)
	d := ls[0].path.d
	// first record after the MoveTo is the first corner arc: radii must be (10,5) in some order/rotation
	found := false
	for i := 0; i < len(d); i += cmdLen(d[i]) {
		if d[i] == ArcToCmd {
			found = true
			if !(verifNear(d[i+1], 10) && verifNear(d[i+2], 5)) {
				t.Fatalf("rx=10 ry=5: corner arc radii (%v,%v), want (10,5)", d[i+1], d[i+2])
			}
			break
		}
	}
	if !found {
		t.Fatalf("no arc in rounded rect")
	}
}

// polygon with an odd number of coordinates must not panic (SVG: the document is in error, render up to the last pair)
func TestVerifSVGOddPoints(t *testing.T) {
	_, ls := verifLayers(t, `<svg viewBox="0 0 100 100"><polygon points="0,0 10,0 10,10 5"/><polyline points="7"/></svg>`)
	if len(ls) < 1 {
		t.Fatalf("no layers")
	}
}

// a path element whose d attribute does not parse: ParseSVGPath returns (nil, err) and drawShape passes the nil
// path on to DrawPath (found by the checker: requires wf(p) of Path.checkDash at canvas.go:661 not provable in
// the "path" case of drawShape). ParseSVG must return the error, not panic.
func TestVerifSVGBadPathData(t *testing.T) {
	defer func() {
		if r := recover(); r != nil {
			t.Fatalf("ParseSVG panicked on <path d=\"5\"/>: %v", r)
		}
	}()
	_, err := ParseSVG(strings.NewReader(`<svg viewBox="0 0 100 100"><path d="5"/></svg>`))
	if err == nil {
		t.Fatalf("no error for bad path data")
	}
}
