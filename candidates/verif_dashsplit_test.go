package canvas

import "testing"

// SplitAt returns an EMPTY slice for a degenerate closed subpath when cut positions are given, although it returns
// []*Path{p} for the same path without cut positions. Path.Dash indexes pd[len(pd)-1] on the result; it is safe only
// because it never produces a cut for a subpath of length 0.
func TestVerifSplitAtDegenerateEmpty(t *testing.T) {
	p := &Path{}
	p.MoveTo(0, 0)
	p.d = append(p.d, CloseCmd, 0, 0, CloseCmd) // "M0 0z"
	if n := len(p.SplitAt()); n != 1 {
		t.Fatalf("no cuts: %d pieces", n)
	}
	if n := len(p.SplitAt(5.0)); n != 0 {
		t.Fatalf("expected the documented oddity (0 pieces), got %d", n)
	}
}

// Regression pin: cut positions run on across subpaths and every piece is taken from its own subpath (an earlier
// version read p.d with an index into the current subpath, finding F6, fixed).
func TestVerifSplitAtMultiSubpath(t *testing.T) {
	p := MustParseSVGPath("M0 0L10 0M100 100L110 100")
	ps := p.SplitAt(5.0, 15.0)
	if len(ps) != 3 {
		t.Fatalf("pieces: %d", len(ps))
	}
	if got := ps[2].String(); got != "M105 100L110 100" {
		t.Fatalf("last piece %q", got)
	}
}
