package text

import "testing"

// F12 (candidate defect found by the contract checker, obligation Linebreak/index: lb.items[b+1]):
// the exported Linebreak indexes items[b+1] for every glue that directly follows a box, without checking that
// the glue has a successor. An item list that ends in such a glue (e.g. a caller that forgot the final forced
// break; GlyphsToItems always appends one) panics with "index out of range" instead of returning a breaking.
func TestLinebreakTrailingGlueF12(t *testing.T) {
	for _, items := range [][]Item{
		{Box(10.0), Glue(5.0, 1.0, 1.0)},
		{Box(10.0), Glue(5.0, 1.0, 1.0), Box(10.0), Glue(5.0, 1.0, 1.0)},
	} {
		func() {
			defer func() {
				if r := recover(); r != nil {
					t.Errorf("Linebreak(%v, 100, 0) panicked: %v", items, r)
				}
			}()
			Linebreak(items, 100.0, 0)
		}()
	}
}
