//go:build veriffinding

package canvas

import (
	"math"
	"testing"
)

// Demonstrates (C04, "inside a join: at most miter-limit x w/2 from the vertex"): for MiterClip joins over the limit the
// clip line is not at distance limit*halfWidth from the vertex along the bisector. MiterJoiner.Join places the clip
// points at parameter t = limit*halfWidth/|d| on the segments from the offset end points to the tip, but the offset end
// points already lie hw*cos(theta) along the bisector, so the clip line lies at
// limit*hw + (1-t)*hw*cos(theta) > limit*hw (the parameter that would put it at limit*hw is
// (limit*hw - hw*cos(theta)) / (|d| - hw*cos(theta))).
// Run: go test -tags veriffinding -run TestMiterClipBeyondLimit .
func TestMiterClipBeyondLimit(t *testing.T) {
	hw, limit := 1.0, 2.0
	pivot := Point{0, 0}
	// counter-clockwise bend: n0 -> n1 rotates by phi = 140 degrees; half angle theta = 70 degrees, 1/cos(theta) = 2.92 > limit
	phi := 140.0 * math.Pi / 180.0
	n0 := Point{0, -hw}
	n1 := Point{hw * math.Sin(phi), -hw * math.Cos(phi)}
	rhs, lhs := &Path{}, &Path{}
	rhs.MoveTo(-5, -hw)
	rhs.LineTo(pivot.X+n0.X, pivot.Y+n0.Y)
	lhs.MoveTo(-5, hw)
	lhs.LineTo(pivot.X-n0.X, pivot.Y-n0.Y)
	before := len(rhs.d)
	MiterJoiner{nil, limit}.Join(rhs, lhs, hw, pivot, n0, n1, math.NaN(), math.NaN())
	bis := n0.Add(n1).Norm(1.0)
	worst := 0.0
	for i := before; i < len(rhs.d); i += cmdLen(rhs.d[i]) {
		q := Point{rhs.d[i+cmdLen(rhs.d[i])-3], rhs.d[i+cmdLen(rhs.d[i])-2]}
		along := q.Sub(pivot).Dot(bis)
		t.Logf("added point %v: distance from vertex %.4f, along bisector %.4f (limit*hw = %.4f)", q, q.Sub(pivot).Length(), along, limit*hw)
		worst = math.Max(worst, along)
	}
	if worst > limit*hw+1e-9 {
		t.Errorf("clip line lies %.4f from the vertex along the bisector, beyond limit*halfWidth = %.4f", worst, limit*hw)
	}
}
