package svg

import (
	"bytes"
	"math"
	"regexp"
	"strings"
	"testing"

	"github.com/tdewolff/canvas"
	"github.com/tdewolff/canvas/renderers/rasterizer"
)

// Candidate defects found while writing the C12 contract of SVG.RenderPath (verif_contracts.go).

func renderSVGPath(p *canvas.Path, style canvas.Style, m canvas.Matrix) string {
	buf := &bytes.Buffer{}
	r := New(buf, 20.0, 20.0, nil)
	buf.Reset() // drop the <svg ...> header
	r.RenderPath(p, style, m)
	return buf.String()
}

// C12 "explicit outline fallback": when SVG cannot express the stroke (here: a non-similarity view), the outline of the
// stroke is written as a second <path> and filled with the stroke paint. A stroke region has no fill rule: the PDF and
// PS renderers fill the outline with the non-zero rule (" f") and so does the rasterizer. SVG.RenderPath copies the
// FILL's rule onto the outline: with FillRule == EvenOdd, places covered twice by the outline (two crossing lines)
// become holes.
func TestVerifOutlineFallbackFillRule(t *testing.T) {
	p := canvas.MustParseSVGPath("M2 2L18 18M2 18L18 2") // an X: the two strokes overlap in the centre
	style := canvas.DefaultStyle
	style.Fill = canvas.Paint{}
	style.Stroke = canvas.Paint{Color: canvas.Black}
	style.StrokeWidth = 2.0
	style.FillRule = canvas.EvenOdd
	m := canvas.Identity.Scale(1.0, 0.5) // not a similarity: outline fallback
	out := renderSVGPath(p, style, m)
	paths := regexp.MustCompile(`<path [^>]*/>`).FindAllString(out, -1)
	if len(paths) != 2 {
		t.Fatalf("expected the unstroked path and the outline, got %v", paths)
	}
	if strings.Contains(paths[1], "evenodd") {
		t.Errorf("stroke outline is filled with the even-odd rule (overlaps of the outline become holes): %s", paths[1])
	}

	// what the library's own rasterizer paints at the crossing (canvas point (10,5) after the view): painted
	ras := rasterizer.New(20.0, 20.0, canvas.DPMM(1.0), canvas.LinearColorSpace{})
	ras.RenderPath(p, style, m)
	if _, _, _, a := ras.At(10, 20-5).RGBA(); a == 0 {
		t.Errorf("rasterizer leaves the crossing unpainted")
	}
}

// C12 dash scale of the explicit outline. Natively, dashes are written as style.Dashes * StrokeWidth * sqrt|det m|
// (ScaleDash), and the rasterizer dashes its outline with ScaleDash(StrokeWidth, ...) too. In the outline fallback
// SVG.RenderPath (like PDF.RenderPath and PS.RenderPath) dashes with the raw style.Dashes: for StrokeWidth 2 and
// dashes [2 2] the dash drawn is 2 mm long instead of 4 mm, i.e. the same drawing has different dash lengths
// depending on whether the joiner happens to be expressible (MiterJoin native vs ArcsClipJoin/MiterClipJoin fallback).
func TestVerifOutlineFallbackDashScale(t *testing.T) {
	p := canvas.MustParseSVGPath("M2 5L18 5")
	style := canvas.DefaultStyle
	style.Fill = canvas.Paint{}
	style.Stroke = canvas.Paint{Color: canvas.Black}
	style.StrokeWidth = 2.0
	style.Dashes = []float64{2.0, 2.0}

	style.StrokeJoiner = canvas.MiterJoin // native
	native := renderSVGPath(p, style, canvas.Identity)
	if !strings.Contains(native, "stroke-dasharray:4 4") {
		t.Fatalf("native stroke: expected dash array 4 4 (dashes scaled by the stroke width): %s", native)
	}

	style.StrokeJoiner = canvas.MiterClipJoin // not expressible: explicit outline
	fallback := renderSVGPath(p, style, canvas.Identity)
	paths := regexp.MustCompile(`<path d="([^"]*)"`).FindAllStringSubmatch(fallback, -1)
	if len(paths) != 2 {
		t.Fatalf("expected the unstroked path and the outline, got %s", fallback)
	}
	outline := canvas.MustParseSVGPath(paths[1][1])
	first := outline.Split()[0].Bounds()
	if math.Abs(first.W()-4.0) > 0.01 {
		t.Errorf("first dash of the explicit outline is %v mm long, the native stroke (and the rasterizer) draw 4 mm dashes", first.W())
	}
}
