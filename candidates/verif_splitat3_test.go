package canvas

import "testing"

// A cut position that is not strictly positive after the single leading zero has been dropped (a second 0, or a
// negative value) is never consumed: the guard `T < ts[j]` stays false for ever, j never advances, and every later
// cut is silently ignored.
func TestVerifSplitAtStuckOnNonPositiveCut(t *testing.T) {
	p := &Path{}
	p.MoveTo(0, 0)
	p.LineTo(10, 0)
	if n := len(p.SplitAt(5)); n != 2 {
		t.Fatalf("reference: want 2 pieces, got %d", n)
	}
	if n := len(p.SplitAt(0, 0, 5)); n != 1 {
		t.Fatalf("duplicate zero: got %d pieces (1 shows the cut at 5 is lost)", n)
	}
	if n := len(p.SplitAt(-1, 5)); n != 1 {
		t.Fatalf("negative cut: got %d pieces (1 shows the cut at 5 is lost)", n)
	}
}
