//go:build verif

package pdf

import (
	"bytes"
	"regexp"
	"strconv"
	"testing"

	"github.com/tdewolff/canvas"
)

// Observation (not a failed proof obligation): writeFont joins CIDs with consecutive UTF-16 values into one bfrange
// by INTEGER increment of the value. The CMap rules (Adobe TN 5014 / PDF 32000-1 9.10.3: "the last byte of the string
// is incremented") do not define a carry out of the last byte, and other producers (e.g. PDFBox, PDFBOX-4302) split
// ranges at xxFF for that reason. The text U+00F0..U+0110 gives <0001> <0021> <00F0>, whose values run over 00FF.
func TestBfrangeCrossesLowByte(t *testing.T) {
	fam := canvas.NewFontFamily("dejavu-serif")
	if err := fam.LoadFontFile(fontDir+"DejaVuSerif.ttf", canvas.FontRegular); err != nil {
		t.Fatal(err)
	}
	face := fam.Face(8, canvas.Black, canvas.FontRegular, canvas.FontNormal)
	s := ""
	for r := rune(0x00F0); r <= 0x0110; r++ {
		s += string(r)
	}
	buf := &bytes.Buffer{}
	p := New(buf, 210, 297, &Options{Compress: false, SubsetFonts: true})
	p.RenderText(canvas.NewTextLine(face, s, canvas.Left), canvas.Identity.Translate(15, 250))
	p.Close()
	crossing := false
	for _, m := range regexp.MustCompile(`<([0-9A-F]{4})> <([0-9A-F]{4})> <([0-9A-F]{4,8})>`).FindAllSubmatch(buf.Bytes(), -1) {
		lo, _ := strconv.ParseInt(string(m[1]), 16, 64)
		hi, _ := strconv.ParseInt(string(m[2]), 16, 64)
		v, _ := strconv.ParseInt(string(m[3]), 16, 64)
		t.Logf("bfrange %s", m[0])
		if v/256 != (v+hi-lo)/256 {
			crossing = true
		}
	}
	if !crossing {
		t.Fatal("expected a bfrange whose destination values cross a xxFF boundary")
	}
}
