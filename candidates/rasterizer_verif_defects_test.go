package rasterizer

import (
	"image"
	"image/color"
	"testing"

	"github.com/tdewolff/canvas"
)

// Candidate defects found while writing the C14 contracts (verif_contracts_render.go). Each test states what the
// property requires and fails against the current code.

func pix(img image.Image, x, y int) color.RGBA {
	r, g, b, a := img.At(x, y).RGBA()
	return color.RGBA{uint8(r >> 8), uint8(g >> 8), uint8(b >> 8), uint8(a >> 8)}
}

// C14 "for any path, fill rule": two nested squares of the same orientation filled with EvenOdd leave the inner
// square unpainted. RenderPath never hands style.FillRule to the scan converter (scanx.Scanner.SetWinding), so the
// inner square is painted as with NonZero.
func TestVerifFillRuleEvenOdd(t *testing.T) {
	ras := New(20.0, 20.0, canvas.DPMM(1.0), canvas.LinearColorSpace{})
	p := canvas.MustParseSVGPath("M2 2L18 2L18 18L2 18zM6 6L14 6L14 14L6 14z")
	style := canvas.DefaultStyle
	style.Fill = canvas.Paint{Color: canvas.Black}
	style.FillRule = canvas.EvenOdd
	ras.RenderPath(p, style, canvas.Identity)

	if got := pix(ras, 4, 10); got.A != 255 {
		t.Errorf("ring pixel (4,10) must be painted, got %v", got)
	}
	if got := pix(ras, 10, 10); got.A != 0 {
		t.Errorf("EvenOdd: pixel (10,10) in the inner square must stay unpainted, got %v", got)
	}
}

// C14 "a pixel whose centre lies inside the region filled by the transformed path receives the fill paint": the fill
// of an OPEN subpath is the region of the implicitly closed subpath (as in SVG/PDF/PS and in
// Path.ToVectorRasterizer, which closes implicitly). Path.ToScanxScanner forwards no closing edge for an open
// subpath and scanx.Scanner.Start does not close the previous one, so the coverage accumulator is left unbalanced:
// the interior of the triangle is not painted at all (only stray edge cells along the diagonal are).
func TestVerifOpenSubpathFill(t *testing.T) {
	ras := New(20.0, 20.0, canvas.DPMM(1.0), canvas.LinearColorSpace{})
	open := canvas.MustParseSVGPath("M10 2L18 18L10 18") // right triangle, closing edge x=10 missing
	style := canvas.DefaultStyle
	style.Fill = canvas.Paint{Color: canvas.Black}
	ras.RenderPath(open, style, canvas.Identity)

	ras2 := New(20.0, 20.0, canvas.DPMM(1.0), canvas.LinearColorSpace{})
	closed := canvas.MustParseSVGPath("M10 2L18 18L10 18z")
	ras2.RenderPath(closed, style, canvas.Identity)

	diff := 0
	for y := 0; y < 20; y++ {
		for x := 0; x < 20; x++ {
			if pix(ras, x, y) != pix(ras2, x, y) {
				if diff < 5 {
					t.Errorf("pixel (%d,%d): open path %v, closed path %v", x, y, pix(ras, x, y), pix(ras2, x, y))
				}
				diff++
			}
		}
	}
	if diff != 0 {
		t.Errorf("%d pixels differ between the open path and its implicit closure", diff)
	}
}

// C14 "rendering ... leaves the canvas ... unchanged" / Renderer contract: RenderImage must not write the caller's
// image. With a non-linear colour space and a transformation without rotation/shear (no margin copy is made), the
// gamma decompression is done IN PLACE on the caller's image.
func TestVerifRenderImageKeepsSource(t *testing.T) {
	src := image.NewRGBA(image.Rect(0, 0, 4, 4))
	for y := 0; y < 4; y++ {
		for x := 0; x < 4; x++ {
			src.SetRGBA(x, y, color.RGBA{128, 64, 32, 255})
		}
	}
	ras := New(10.0, 10.0, canvas.DPMM(1.0), canvas.SRGBColorSpace{})
	ras.RenderImage(src, canvas.Identity)
	if got := src.RGBAAt(1, 1); got != (color.RGBA{128, 64, 32, 255}) {
		t.Errorf("caller's image was modified: pixel (1,1) = %v, want {128 64 32 255}", got)
	}
}

// Same code path: an image that is not a draw.Image (every decoded JPEG: *image.YCbCr, and every canvas.Image
// wrapper, which embeds image.Image only) makes the unchecked type assertion img.(draw.Image) panic.
func TestVerifRenderImageReadOnlySource(t *testing.T) {
	defer func() {
		if r := recover(); r != nil {
			t.Errorf("RenderImage panicked for a read-only image: %v", r)
		}
	}()
	src := image.NewYCbCr(image.Rect(0, 0, 4, 4), image.YCbCrSubsampleRatio420)
	ras := New(10.0, 10.0, canvas.DPMM(1.0), canvas.SRGBColorSpace{})
	ras.RenderImage(src, canvas.Identity)
}

// C12/C14 dash scale of the explicit outline: the rasterizer dashes the outline with ScaleDash(StrokeWidth, ...)
// (dash lengths multiplied by the stroke width), while the explicit-outline fallback of the PDF, PS and SVG
// renderers dashes with style.Dashes unscaled. With StrokeWidth 2 and dashes [2 2] on a 16 mm line the rasterizer
// paints dashes of 4 mm; SVG/PDF/PS fall-back paints dashes of 2 mm (see renderers/svg/verif_defects_test.go).
func TestVerifDashScaleRasterizer(t *testing.T) {
	ras := New(20.0, 10.0, canvas.DPMM(1.0), canvas.LinearColorSpace{})
	p := canvas.MustParseSVGPath("M2 5L18 5")
	style := canvas.DefaultStyle
	style.Fill = canvas.Paint{}
	style.Stroke = canvas.Paint{Color: canvas.Black}
	style.StrokeWidth = 2.0
	style.Dashes = []float64{2.0, 2.0}
	ras.RenderPath(p, style, canvas.Identity)
	// pixel row y=5 (canvas y 4..5 -> image row 5), x from 2: painted runs
	runs := []int{}
	run := 0
	for x := 2; x < 18; x++ {
		if pix(ras, x, 5).A == 255 {
			run++
		} else if run != 0 {
			runs = append(runs, run)
			run = 0
		}
	}
	if run != 0 {
		runs = append(runs, run)
	}
	t.Logf("painted runs along the line: %v (dash length 2 unscaled, 4 scaled by the stroke width)", runs)
	for _, r := range runs {
		if r != 2 {
			t.Errorf("dash of %d px: rasterizer scales style.Dashes by StrokeWidth, the PDF/PS/SVG outline fallback does not", r)
			break
		}
	}
}

// C14 "for any path ... view matrix ... and resolution": fixedPoint26_6 converts pixel coordinates to 26.6 fixed point
// (int32) without clamping; its contract needs |coordinate| < 2^25 pixels. A rectangle that starts inside the image
// and extends far to the right (x = 1e9 mm at 1 px/mm) wraps around to a large negative x: pixels left of the
// rectangle are painted and pixels inside it are not.
func TestVerifFixedPointOverflow(t *testing.T) {
	ras := New(20.0, 10.0, canvas.DPMM(1.0), canvas.LinearColorSpace{})
	p := canvas.MustParseSVGPath("M5 2L1e9 2L1e9 8L5 8z")
	style := canvas.DefaultStyle
	style.Fill = canvas.Paint{Color: canvas.Black}
	ras.RenderPath(p, style, canvas.Identity)
	if got := pix(ras, 10, 5); got.A != 255 {
		t.Errorf("pixel (10,5) inside the rectangle must be painted, got %v", got)
	}
	if got := pix(ras, 2, 5); got.A != 0 {
		t.Errorf("pixel (2,5) left of the rectangle must stay unpainted, got %v", got)
	}
}
