//go:build verif

package canvas

import (
	"math"
	"testing"
)

// Candidate defects found while writing the contracts of verif_contracts_intersect.go (demonstrations against the
// real code; both are low impact, see the report).

// 1. intersectionLineLineBentleyOttmann detects the overlap of two collinear steep segments only when they go upwards:
// for "mostly vertical" segments it compares the Y coordinates as if Y increased from a0 to a1, which the sweep order
// (left to right) does not guarantee. Mirror images (y -> -y) give 2 and 0 intersections.
func TestVerifBOSteepDownOverlap(t *testing.T) {
	up := intersectionLineLineBentleyOttmann(nil, Point{0, 0}, Point{1, 10}, Point{0.5, 5}, Point{1.5, 15})
	down := intersectionLineLineBentleyOttmann(nil, Point{0, 10}, Point{1, 0}, Point{0.5, 5}, Point{1.5, -5})
	t.Log("up  :", up)
	t.Log("down:", down)
	if len(up) != len(down) {
		t.Errorf("mirror images give %d and %d intersections", len(up), len(down))
	}
}

// 2. Intersection.Dir is documented as a direction in [0,2*pi). intersectionLineCube does not normalise the direction
// it nudges at an end point (intersectionLineQuad does), so a cubic that leaves the line tangentially and bends to the
// right is reported with a negative direction.
func TestVerifLineCubeDirRange(t *testing.T) {
	zs := intersectionLineCube(nil, Point{-1, 0}, Point{2, 0}, Point{0, 0}, Point{1, 0}, Point{2, -1}, Point{3, -3})
	zq := intersectionLineQuad(nil, Point{-1, 0}, Point{2, 0}, Point{0, 0}, Point{1, 0}, Point{2, -1})
	t.Log("cube:", zs)
	t.Log("quad:", zq)
	for _, z := range append(zs, zq...) {
		if z.Dir[1] < 0.0 || 2.0*math.Pi <= z.Dir[1] {
			t.Errorf("direction %v outside [0,2pi) in %v", z.Dir[1], z)
		}
	}
}

// 3. Path.CCW on an open (implicitly closed) contour whose start point is the right-most point: the incoming edge
// is the implicit closing edge, but CCW asks direction(len(p.d), 1.0), which is out of range and yields the zero
// vector, so the incoming direction is taken as pi whatever the geometry. The clockwise triangle (2,0),(0,1),(0,2)
// is reported counter-clockwise; the same contour with an explicit z is reported correctly.
func TestVerifCCWOpenStartRightmost(t *testing.T) {
	open := MustParseSVGPath("M2 0L0 1L0 2")
	closed := MustParseSVGPath("M2 0L0 1L0 2z")
	// signed area of (2,0),(0,1),(0,2): negative = clockwise
	area := 0.5 * ((0-2)*(2-0) - (1-0)*(0-2))
	t.Log("signed area:", area, "closed.CCW():", closed.CCW(), "open.CCW():", open.CCW())
	if closed.CCW() != (area > 0) {
		t.Errorf("closed contour: CCW() = %v, signed area %v", closed.CCW(), area)
	}
	if open.CCW() != (area > 0) {
		t.Errorf("open contour: CCW() = %v, signed area %v", open.CCW(), area)
	}
	if f := open.Filling(Positive); len(f) != 1 || f[0] != (area > 0) {
		t.Errorf("open contour: Filling(Positive) = %v, signed area %v", f, area)
	}
}

// 3b. Same out-of-range call for a closed contour: the comparison "further right, or equally right (within Epsilon) and
// lower" is not transitive, so the end point of the Close record (= the start point) can win against a vertex that won
// against the start point; k is then len(p.d) and direction(k, 0.0) is again the zero vector. The clockwise triangle
// (0,0),(-3,2),(5e-11,5) is reported counter-clockwise.
func TestVerifCCWClosedEpsilonCorner(t *testing.T) {
	p := MustParseSVGPath("M0 0L-3 2L5e-11 5z")
	area := 0.5 * ((-3-0)*(5-0) - (2-0)*(5e-11-0)) // negative = clockwise
	t.Log("signed area:", area, "CCW():", p.CCW())
	if p.CCW() != (area > 0) {
		t.Errorf("CCW() = %v, signed area %v", p.CCW(), area)
	}
}
