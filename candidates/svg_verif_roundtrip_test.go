package svg

import (
	"image"
	"bytes"
	"math"
	"testing"

	"github.com/tdewolff/canvas"
)

// boundsRecorder records the bounds (in canvas millimetres) of every path rendered to it.
type boundsRecorder struct {
	w, h float64
	b    []canvas.Rect
}

func (r *boundsRecorder) Size() (float64, float64) { return r.w, r.h }
func (r *boundsRecorder) RenderPath(path *canvas.Path, style canvas.Style, m canvas.Matrix) {
	r.b = append(r.b, path.Copy().Transform(m).Bounds())
}
func (r *boundsRecorder) RenderText(text *canvas.Text, m canvas.Matrix) {}
func (r *boundsRecorder) RenderImage(img image.Image, m canvas.Matrix)       {}

// C19, last sentence: the SVG the library's own back-end writes for a path drawing is read back to an
// equivalent drawing (same canvas size, same geometry).
func TestVerifSVGRoundTrip(t *testing.T) {
	c := canvas.New(100.0, 50.0)
	ctx := canvas.NewContext(c)
	ctx.SetFillColor(canvas.Red)
	ctx.DrawPath(10.0, 5.0, canvas.Rectangle(30.0, 20.0))

	buf := &bytes.Buffer{}
	r := New(buf, c.W, c.H, nil)
	c.RenderTo(r)
	if err := r.Close(); err != nil {
		t.Fatal(err)
	}

	c2, err := canvas.ParseSVG(bytes.NewReader(buf.Bytes()))
	if err != nil {
		t.Fatalf("ParseSVG: %v\n%s", err, buf.String())
	}
	if math.Abs(c2.W-c.W) > 1e-6 || math.Abs(c2.H-c.H) > 1e-6 {
		t.Errorf("canvas size read back as %v x %v mm, written %v x %v mm\n%s", c2.W, c2.H, c.W, c.H, buf.String())
	}
	rec := &boundsRecorder{w: c2.W, h: c2.H}
	c2.RenderTo(rec)
	if len(rec.b) != 1 {
		t.Fatalf("%d paths read back", len(rec.b))
	}
	want := canvas.Rect{X0: 10.0, Y0: 5.0, X1: 40.0, Y1: 25.0}
	got := rec.b[0]
	if math.Abs(got.X0-want.X0) > 1e-6 || math.Abs(got.Y0-want.Y0) > 1e-6 || math.Abs(got.X1-want.X1) > 1e-6 || math.Abs(got.Y1-want.Y1) > 1e-6 {
		t.Errorf("rectangle read back with bounds %v mm, drawn with bounds %v mm", got, want)
	}
}
