package canvas

import (
	"math"
	"testing"
)

// Bounds of a rotated elliptical arc must contain every point of the arc and be tight.
func TestVerifBoundsRotatedEllipseArc(t *testing.T) {
	bad := 0
	for _, phi := range []float64{10, 30, 45, 60, 80, 120} {
		for _, th := range [][2]float64{{0, 90}, {20, 70}, {40, 100}, {-30, 30}, {100, 200}, {60, 80}, {0, 45}} {
			p := &Path{}
			p.Arc(5.0, 1.0, phi, th[0], th[1])
			b := p.Bounds()
			ymin, ymax := math.Inf(1), math.Inf(-1)
			xmin, xmax := math.Inf(1), math.Inf(-1)
			L := p.Length()
			_ = L
			pos := p.Pos()
			_ = pos
			// sample via ellipsePos
			start := p.StartPos()
			for i := 0; i < len(p.d); {
				cmd := p.d[i]
				if cmd == ArcToCmd {
					rx, ry, ph := p.d[i+1], p.d[i+2], p.d[i+3]
					large, sweep := toArcFlags(p.d[i+4])
					end := Point{p.d[i+5], p.d[i+6]}
					cx, cy, t0, t1 := ellipseToCenter(start.X, start.Y, rx, ry, ph, large, sweep, end.X, end.Y)
					for k := 0; k <= 2000; k++ {
						q := EllipsePos(rx, ry, ph, cx, cy, t0+(t1-t0)*float64(k)/2000)
						ymin, ymax = math.Min(ymin, q.Y), math.Max(ymax, q.Y)
						xmin, xmax = math.Min(xmin, q.X), math.Max(xmax, q.X)
					}
					start = end
				} else {
					start = Point{p.d[i+cmdLen(cmd)-3], p.d[i+cmdLen(cmd)-2]}
				}
				i += cmdLen(cmd)
			}
			if math.Abs(b.Y1-ymax) > 1e-3 || math.Abs(b.Y0-ymin) > 1e-3 || math.Abs(b.X1-xmax) > 1e-3 || math.Abs(b.X0-xmin) > 1e-3 {
				bad++
				t.Errorf("phi=%v theta=%v: Bounds=%v sampled=[%v %v %v %v]", phi, th, b, xmin, ymin, xmax, ymax)
			}
		}
	}
}
