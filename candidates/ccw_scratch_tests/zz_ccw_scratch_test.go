//go:build ccwscratch

package canvas

import (
	"math"
	"math/rand"
	"testing"
)

func ccwOld(p *Path) bool {
	if len(p.d) <= 4 || (p.d[4] == LineToCmd || p.d[4] == CloseCmd) && len(p.d) <= 4+cmdLen(p.d[4]) {
		return true
	}
	p = p.XMonotone()
	k, kMax := 4, len(p.d)
	if p.d[kMax-1] == CloseCmd {
		kMax -= cmdLen(CloseCmd)
	}
	for i := 4; i < len(p.d); {
		cmd := p.d[i]
		if cmd == MoveToCmd {
			kMax = i
			break
		}
		i += cmdLen(cmd)
		if x, y := p.d[i-3], p.d[i-2]; p.d[k-3] < x || Equal(p.d[k-3], x) && y < p.d[k-2] {
			k = i
		}
	}
	var kPrev int
	if k == 4 {
		kPrev = kMax
	} else {
		kPrev = k - cmdLen(p.d[k-1])
	}
	var angleNext float64
	anglePrev := angleNorm(p.direction(kPrev, 1.0).Angle() + math.Pi)
	if k == kMax {
		angleNext = Point{p.d[1], p.d[2]}.Sub(Point{p.d[k-3], p.d[k-2]}).Angle()
	} else {
		angleNext = p.direction(k, 0.0).Angle()
	}
	if Equal(anglePrev, angleNext) {
		var curvNext float64
		curvPrev := -p.curvature(kPrev, 1.0)
		if k == kMax {
			curvNext = 0.0
		} else {
			curvNext = p.curvature(k, 0.0)
		}
		if !Equal(curvPrev, curvNext) {
			return curvNext < curvPrev
		}
	}
	return (angleNext - anglePrev) < 0.0
}

func TestScratchCCWTriangles(t *testing.T) {
	rnd := rand.New(rand.NewSource(1))
	nOldBad, nNewBad, n := [4]int{}, [4]int{}, 0
	for it := 0; it < 200000; it++ {
		var pts [3]Point
		for j := range pts {
			pts[j] = Point{float64(rnd.Intn(9) - 4), float64(rnd.Intn(9) - 4)}
		}
		area := (pts[1].X-pts[0].X)*(pts[2].Y-pts[0].Y) - (pts[1].Y-pts[0].Y)*(pts[2].X-pts[0].X)
		if area == 0 {
			continue
		}
		n++
		for variant := 0; variant < 4; variant++ {
			p := &Path{}
			p.MoveTo(pts[0].X, pts[0].Y)
			p.LineTo(pts[1].X, pts[1].Y)
			p.LineTo(pts[2].X, pts[2].Y)
			if variant&1 == 1 {
				p.Close()
			}
			if variant&2 == 2 {
				p.MoveTo(10, 10)
				p.LineTo(20, 10)
				p.LineTo(20, 20)
				p.Close()
			}
			if ccwOld(p) != (area > 0) {
				nOldBad[variant]++
			}
			if p.CCW() != (area > 0) {
				nNewBad[variant]++
				if nNewBad[variant] < 5 {
					t.Errorf("variant %d: %v CCW=%v area=%v", variant, p, p.CCW(), area)
				}
			}
		}
	}
	t.Logf("triangles: %d; wrong old (open, closed, open+sub, closed+sub): %v; wrong new: %v", n, nOldBad, nNewBad)
}

// curved contours: circle/ellipse, both orientations, alone and followed by another subpath, rotated so that the start is or is not right-most
func TestScratchCCWCurves(t *testing.T) {
	for _, rot := range []float64{0, 30, 90, 135, 180, 270} {
		for _, rev := range []bool{false, true} {
			for _, multi := range []bool{false, true} {
				for _, shape := range []string{"circle", "ellipse", "rrect", "quad"} {
					var p *Path
					switch shape {
					case "circle":
						p = Circle(3)
					case "ellipse":
						p = Ellipse(4, 2)
					case "rrect":
						p = RoundedRectangle(6, 4, 1)
					case "quad":
						p = MustParseSVGPath("M2 0Q0 3 -2 0Q0 -3 2 0z")
					}
					p = p.Transform(Identity.Rotate(rot))
					want := true
					if rev {
						p = p.Reverse()
						want = false
					}
					if shape == "quad" {
						want = !rev
					}
					if multi {
						p = p.Append(Rectangle(1, 1).Translate(20, 20))
					}
					if got := p.CCW(); got != want {
						t.Errorf("%s rot=%v rev=%v multi=%v: CCW=%v want %v   (old: %v)  %v", shape, rot, rev, multi, got, want, ccwOld(p), p)
					} else if old := ccwOld(p); old != want {
						t.Logf("fixed: %s rot=%v rev=%v multi=%v: old CCW=%v want %v", shape, rot, rev, multi, old, want)
					}
				}
			}
		}
	}
}

// open curved contour whose start is the right-most point and whose implicit closing line is tangent-free
func TestScratchCCWOpenCurve(t *testing.T) {
	for _, s := range []struct {
		d    string
		want bool
	}{
		{"M2 0Q2 2 0 2L0 0", true},    // ccw quarter, open, start (2,0) is right-most & lowest
		{"M2 0L0 0L0 2Q2 2 2 0", false}, // same contour cw, open, ends at start
		{"M2 0L0 0L0 2Q2 2 2 1", false}, // cw, open, implicit close is vertical line down, tangent to the curve end
		{"M2 0L2 1Q2 2 0 2L0 0", true},
		{"M2 0A2 2 0 0 1 -2 0", true},  // half circle ccw, open
		{"M2 0A2 2 0 0 0 -2 0", false}, // half circle cw (below), open
	} {
		p := MustParseSVGPath(s.d)
		if got := p.CCW(); got != s.want {
			t.Errorf("%s: CCW=%v want %v (old %v)", s.d, got, s.want, ccwOld(p))
		} else if old := ccwOld(p); old != s.want {
			t.Logf("fixed: %s: old CCW=%v want %v", s.d, old, s.want)
		}
	}
}
