//go:build ccwscratch

package canvas

import "testing"

func TestScratchDbg(t *testing.T) {
	p := MustParseSVGPath("M3 0A3 3 0 0 0 -3 0A3 3 0 0 0 3 0z")
	q := p.XMonotone()
	t.Log(q, q.d)
	for i := 4; i < len(q.d); i += cmdLen(q.d[i]) {
		t.Log(i, q.direction(i, 0.0), q.direction(i, 1.0), q.curvature(i, 0.0), q.curvature(i, 1.0))
	}
	p = Circle(3)
	q = p.XMonotone()
	t.Log(q, q.d)
	for i := 4; i < len(q.d); i += cmdLen(q.d[i]) {
		t.Log(i, q.direction(i, 0.0), q.direction(i, 1.0), q.curvature(i, 0.0), q.curvature(i, 1.0))
	}
}
