//go:build verif_findings

package text

import (
	"os"
	"testing"

	"github.com/tdewolff/font"
)

// Candidate finding (C16, LinebreakGlyphs): the glyph cursor i is advanced only for box items, never for the
// glyphs that make up glue items (the spaces, Size 1 each) or newline/soft-hyphen penalties. After the first
// space every word is therefore taken one glyph too early from the input: "ab cd" laid out on one line yields the
// glyphs a b <space> <space> c instead of a b <space> c d: the space is duplicated and the last glyph is lost.
func TestLinebreakGlyphsSkipsGlueGlyphsF23(t *testing.T) {
	b, err := os.ReadFile("../resources/DejaVuSerif.ttf")
	if err != nil {
		t.Skip(err)
	}
	sfnt, err := font.ParseSFNT(b, 0)
	if err != nil {
		t.Fatal(err)
	}
	s := "ab cd"
	glyphs := []Glyph{}
	for i, r := range s {
		id := sfnt.GlyphIndex(r)
		glyphs = append(glyphs, Glyph{ID: id, Cluster: uint32(i), XAdvance: int32(sfnt.GlyphAdvance(id)), Text: r})
	}
	for _, align := range []Align{Left, Justified} {
		in := append([]Glyph{}, glyphs...)
		lines := LinebreakGlyphs(sfnt, 12.0, in, 0.0, 1000.0, align, 0)
		out := ""
		for _, line := range lines {
			for _, g := range line {
				out += string(g.Text)
			}
			out += "|"
		}
		t.Logf("align=%v: %q", align, out)
		if len(lines) == 0 || len(lines[0]) != 5 || lines[0][3].Text != 'c' || lines[0][4].Text != 'd' {
			t.Errorf("align=%v: first line is %q, want \"ab cd\"", align, out)
		}
	}
}
