package canvas

import (
	"math"
	"testing"
)

// Observations found while writing the builders' contracts (not panics):
// 1. ArcTo treats radii that are equal within Epsilon as a circle: it keeps them in the GIVEN order (so the stored
//    "major" radius can be the smaller one) and drops the rotation.
// 2. Join replays q's first arc from p's end point (within Epsilon of q's start), so an arc whose radii just span its
//    chord (a half circle) can come out with slightly larger radii than stored in q.
func TestVerifArcToNearCircleKeepsOrder(t *testing.T) {
	p := &Path{}
	p.MoveTo(0, 0)
	p.ArcTo(10.0, 10.0+0.5*Epsilon, 30.0, false, true, 5, 5)
	d := p.Data()
	n := len(d)
	rx, ry, phi := d[n-7], d[n-6], d[n-5]
	if !(rx < ry) || phi != 0.0 {
		t.Fatalf("expected unsorted radii and zero rotation, got rx=%v ry=%v phi=%v", rx, ry, phi)
	}
	t.Logf("stored rx=%v < ry=%v, rotation %v (30 degrees given)", rx, ry, phi)
}

func TestVerifJoinHalfCircleGrows(t *testing.T) {
	p := &Path{}
	p.MoveTo(0, 0)
	p.LineTo(10, 0)
	q := &Path{}
	q.MoveTo(10+0.9*Epsilon, 0)
	q.ArcTo(5, 5, 0, false, true, 20+0.9*Epsilon, 0) // half circle: radius == half chord
	qrx := q.Data()[5]
	r := p.Join(q)
	d := r.Data()
	rrx := d[9]
	if d[8] != ArcToCmd {
		t.Fatalf("no arc at the expected place: %v", d)
	}
	t.Logf("q's rx=%v, joined rx=%v (diff %g)", qrx, rrx, rrx-qrx)
	if rrx < qrx || math.Abs(rrx-qrx) > Epsilon {
		t.Fatalf("radius changed by more than Epsilon or shrank")
	}
}
