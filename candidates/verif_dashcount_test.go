package canvas

import (
	"math/rand"
	"testing"
)

// Dash assumes that ps.SplitAt(t...) returns len(t)+1 pieces when every cut lies in (0, ps.Length()-Epsilon).
// Length() and SplitAt measure curves with different numerical schemes; look for a disagreement.
func TestVerifDashSplitCount(t *testing.T) {
	rnd := rand.New(rand.NewSource(1))
	bad := 0
	for it := 0; it < 3000 && bad < 5; it++ {
		p := &Path{}
		p.MoveTo(rnd.Float64()*100, rnd.Float64()*100)
		switch it % 3 {
		case 0:
			p.CubeTo(rnd.Float64()*100, rnd.Float64()*100, rnd.Float64()*100, rnd.Float64()*100, rnd.Float64()*100, rnd.Float64()*100)
		case 1:
			p.QuadTo(rnd.Float64()*100, rnd.Float64()*100, rnd.Float64()*100, rnd.Float64()*100)
		case 2:
			p.ArcTo(10+rnd.Float64()*50, 10+rnd.Float64()*50, rnd.Float64()*360, rnd.Intn(2) == 0, rnd.Intn(2) == 0, rnd.Float64()*100, rnd.Float64()*100)
		}
		length := p.Length()
		if length < 1.0 {
			continue
		}
		// the last cut as close to the end as Dash allows
		n := 1 + rnd.Intn(5)
		d := (length - 3*Epsilon) / float64(n)
		ts := []float64{}
		for k := 1; k <= n; k++ {
			ts = append(ts, d*float64(k))
		}
		if !(ts[n-1]+Epsilon < length) {
			continue
		}
		ps := p.SplitAt(ts...)
		if len(ps) != n+1 {
			bad++
			t.Logf("path %v length %.15g cuts %v: %d pieces, expected %d", p, length, ts, len(ps), n+1)
		}
	}
	if bad > 0 {
		t.Errorf("%d disagreements between Length() and SplitAt", bad)
	}
}

// Consequence for Dash: a dash that ends closer than a few 1e-10 to the end of a curved subpath (but more than
// Epsilon before it, so Dash does generate the cut) is lost together with the cut: SplitAt returns one piece fewer,
// Dash's parity bookkeeping then takes the single piece for the gap and draws nothing.
func TestVerifDashLosesDashNearEnd(t *testing.T) {
	p := &Path{}
	p.MoveTo(7.9453623373871975, 59.48085976830626)
	p.QuadTo(5.912065131387529, 69.2024587353112, 30.152268100656, 17.32662381827053)
	length := p.Length()
	q := p.Dash(0.0, length-3*Epsilon, 10.0)
	if q.Empty() {
		t.Errorf("Dash(0, length-3e-10, 10) of a path of length %.15g is empty; expected one dash over (almost) the whole path", length)
	}
	// for comparison: the same on a straight line of the same length keeps the dash
	l := &Path{}
	l.MoveTo(0, 0)
	l.LineTo(length, 0)
	if l.Dash(0.0, length-3*Epsilon, 10.0).Empty() {
		t.Errorf("line: dash lost as well")
	}
}
