package canvas

import "testing"

func TestZZF5(t *testing.T) {
	p := MustParseSVGPath("M0 0L2 0L2 2L0 2z")
	q := MustParseSVGPath("M1 1L3 1L3 3L1 1")
	before := q.String()
	_ = p.And(q)
	if q.String() != before {
		t.Errorf("And modified its argument: %q -> %q", before, q.String())
	}
	p2 := MustParseSVGPath("M1 1L3 1L3 3L1 1")
	b2 := p2.String()
	_ = p2.Settle(NonZero)
	if p2.String() != b2 {
		t.Errorf("Settle modified its receiver: %q -> %q", b2, p2.String())
	}
}
