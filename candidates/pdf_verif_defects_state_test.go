package pdf

import (
	"bytes"
	"image/color"
	"strings"
	"testing"
	"time"

	"github.com/tdewolff/canvas"
)

// Candidate genuine defects found while writing the graphics-state contracts (verif_contracts_state.go).
// Each test FAILS on the current code when the defect is present.

func rect() *canvas.Path { return canvas.Rectangle(10, 10) }

// D1: the fill paint cache keeps claiming a half-transparent fill is current after SetStroke changed the (shared
// stroking/non-stroking) opacity. A later fill with the cached paint is then painted with the stroke's opacity.
func TestDefectFillAlphaLostAfterStroke(t *testing.T) {
	buf := &bytes.Buffer{}
	r := New(buf, 100, 100, &Options{Compress: false})
	half := canvas.Paint{Color: color.RGBA{128, 0, 0, 128}} // premultiplied red at alpha 128/255
	opaque := canvas.Paint{Color: canvas.Blue}

	style := canvas.DefaultStyle
	style.Fill = half
	style.Stroke = opaque
	style.StrokeWidth = 1.0
	r.RenderPath(rect(), style, canvas.Identity) // fill at alpha .5, then stroke at alpha 1 (alphas differ)

	mark := r.w.Len()
	style2 := canvas.DefaultStyle
	style2.Fill = half // same half-transparent fill, no stroke
	r.RenderPath(rect(), style2, canvas.Identity)
	second := r.w.String()[mark:]

	// PDF state before the second path: opacity 1 (set for the stroke). A correct writer must switch the
	// opacity back to 128/255 (a "gs" operator) before filling.
	if r.w.alpha != float64(half.Color.A)/255.0 || !strings.Contains(second, " gs") {
		t.Errorf("second fill painted with opacity %v instead of %v; operators: %q", r.w.alpha, float64(half.Color.A)/255.0, second)
	}
}

// D2: RenderText with faux-bold writes the line width operator directly (pdf.go, " %v w"), without updating the
// cached line width; a later stroke with the previously cached width elides its "w" operator and is stroked with
// the faux-bold outline width.
func TestDefectFauxBoldLineWidthBypassesCache(t *testing.T) {
	family := canvas.NewFontFamily("dejavu-serif")
	if err := family.LoadFontFile("../../resources/DejaVuSerif.ttf", canvas.FontRegular); err != nil {
		t.Skip(err)
	}
	bold := family.Face(12, canvas.Black, canvas.FontBold, canvas.FontNormal) // no bold font loaded: faux bold
	if bold.FauxBold == 0.0 {
		t.Skip("no faux bold")
	}
	text := canvas.NewTextLine(bold, "bold", canvas.Left)

	buf := &bytes.Buffer{}
	r := New(buf, 100, 100, &Options{Compress: false})
	style := canvas.DefaultStyle
	style.Fill = canvas.Paint{}
	style.Stroke = canvas.Paint{Color: canvas.Black}
	style.StrokeWidth = 2.0
	r.RenderPath(rect(), style, canvas.Identity) // " 2 w ... S"
	r.RenderText(text, canvas.Identity)           // BT ... " 0.48 w" ... ET, line width is now the faux-bold width
	mark := r.w.Len()
	r.RenderPath(rect(), style, canvas.Identity) // must set the line width back to 2
	after := r.w.String()[mark:]
	if !strings.Contains(after, " 2 w") {
		t.Errorf("stroke after faux-bold text does not restore the line width; whole stream: %q", r.w.String())
	}
}

// D3: a negative dash offset with an empty (or all-zero) dash array never terminates.
func TestDefectSetDashesNegativePhaseNoDashesHangs(t *testing.T) {
	done := make(chan struct{})
	go func() {
		buf := &bytes.Buffer{}
		page := newPDFWriter(buf).NewPage(100, 100)
		page.SetDashes(-1.0, []float64{})
		close(done)
	}()
	select {
	case <-done:
	case <-time.After(2 * time.Second):
		t.Errorf("SetDashes(-1, []) did not return within 2s (loop `for dashPhase < 0 { dashPhase += 0 }`)")
	}
}
