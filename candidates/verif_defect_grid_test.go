package canvas

import "testing"

// Grid translates the shared cell path in place on every iteration (Path.Translate mutates its receiver), so the
// offsets accumulate: the k-th cell ends up at the sum of all previous offsets and leaves the w x h outline.
func TestVerifGridCellsAccumulateTranslation(t *testing.T) {
	w, h := 10.0, 10.0
	p := Grid(w, h, 3, 1, 1.0) // three cells of width 2 at x = 1, 4, 7 expected
	b := p.Bounds()
	if b.X1 > w+Epsilon || b.Y1 > h+Epsilon {
		t.Fatalf("Grid(10,10,3,1,1): cells leave the outline, bounds = %v; path = %v", b, p)
	}
}
