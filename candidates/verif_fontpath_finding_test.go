//go:build verif_findings

package canvas

import (
	"testing"

	"github.com/tdewolff/canvas/text"
)

// Candidate finding (C18): the advance returned by FontFace.toPath / ToPath includes the face's XOffset
// (sub/superscript faces), whereas textWidth / TextWidth of the same glyph list does not; the two public
// measures of "how far the text advances" differ by MmPerEm*XOffset. Shown with an empty glyph list, for
// which no font program is needed.
func TestVerifToPathAdvanceIncludesXOffset(t *testing.T) {
	face := &FontFace{Font: &Font{}, MmPerEm: 0.5, XOffset: 100}
	var glyphs []text.Glyph
	_, adv, err := face.toPath(glyphs, 0)
	if err != nil {
		t.Fatal(err)
	}
	w := face.textWidth(glyphs)
	if adv != w {
		t.Logf("toPath advance = %v, textWidth = %v (difference MmPerEm*XOffset = %v)", adv, w, face.MmPerEm*float64(face.XOffset))
		t.Fail()
	}
}
