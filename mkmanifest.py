#!/usr/bin/env python3
# generates MANIFEST.json from the table below (kept in one place so that it is always valid)
import json
props = [json.loads(l) for l in open('/verif/properties.jsonl')]
claimed = json.load(open('/verif/claims.json'))
checks=[]; na=[]
for p in props:
    pid=p['id']
    c=claimed.get(pid)
    if c and c.get('claimed'):
        checks.append({
          "property_id": pid,
          "quick_cmd": "./check %s --tier quick" % pid,
          "thorough_cmd": "./check %s --tier thorough" % pid,
          "evidence_file": "/verif/evidence/%s.json" % pid,
          "replay_cmd_template": "cat {path}",
          "engine": "govc",
          "level_claimed": {"category":"proof","text":c['text'],"design_ref":c.get('design_ref','DESIGN.md section 4')},
          "level_note": c['note'],
          "technique": c.get('technique',"contract-based deductive verification: weakest-precondition style VCs generated from the typed Go AST of /repo (govc), contracts in guarded //@ comment files, discharged by z3/cvc5"),
        })
    else:
        na.append({"property_id":pid,"reason":(c or {}).get('reason',"no contract-decidable core built yet (work in progress; see DESIGN.md)")})
m={"version":1,
 "setup_cmd":"./build.sh",
 "hooks":{"guard":"verif","enable":"-tags verif (contract files /repo/**/verif_*.go carry //go:build verif)","baseline_off_cmd": json.load(open('/root/.vp/BASELINE.json'))['cmd'],
          "source_commits": [l.strip() for l in open('/verif/hook_commits.txt') if l.strip()], "add_only": True},
 "engines":[{"name":"govc","path":"/verif/govc","serves_properties":[c['property_id'] for c in checks],"kind_free_text":"VC generator for Go (go/packages typed AST, forward symbolic execution with loop invariants, modular contracts) + SMT solver race (z3 4.8.12, z3 5.1.0, cvc5 1.0.3) + counterexample replay via go test -overlay"}],
 "checks":checks,
 "not_applicable":na,
 "notes":"Contracts live in /repo/**/verif_*.go behind build tag verif. Every check reloads /repo's working tree, regenerates all verification conditions and discharges them; known findings are in /verif/known_findings.json."}
json.dump(m,open('/verif/MANIFEST.json','w'),indent=1)
print(len(checks),'checks',len(na),'n/a')
