#!/bin/sh
# selftest.sh : must-fail corpus. Re-runs every seeded change that the checks are expected to catch (seeded/EXPECTED.txt,
# one seed id per line) on a scratch worktree and fails if one is no longer reported. Run after every engine change:
# a checker that stops failing on property-breaking changes is broken even if every check passes on the unchanged tree.
DIR=$(cd "$(dirname "$0")" && pwd)
ids=$(cat $DIR/seeded/EXPECTED.txt)
out=$($DIR/seedsweep.sh $ids 2>&1)
echo "$out"
bad=$(echo "$out" | awk -F'\t' '$3!="DETECTED"{print $1}')
if [ -n "$bad" ]; then echo "SELFTEST FAILED: no longer detected: $bad"; exit 1; fi
echo "SELFTEST OK: $(echo "$ids" | wc -w) seeded changes detected"
