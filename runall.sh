#!/bin/sh
# runall.sh [tier] : run every claimed check sequentially, print one summary line per property
TIER=${1:-quick}
DIR=$(cd "$(dirname "$0")" && pwd)
rc=0
for p in $(jq -r '.checks[].property_id' "$DIR/MANIFEST.json"); do
  s=$(date +%s)
  out=$("$DIR/check" "$p" --tier "$TIER" 2>&1); r=$?
  e=$(date +%s)
  echo "$p exit=$r $((e-s))s $(echo "$out" | grep -E 'VIOLATION|KNOWN-FINDING' | head -3 | tr '\n' ' ') $(echo "$out" | tail -1)"
  [ $r -ne 0 ] && rc=1
done
exit $rc
