#!/bin/sh
# builds govc offline with the cached go1.24 toolchain
set -e
G=$(ls -d /root/go/pkg/mod/golang.org/toolchain@v0.0.1-go1.24*.linux-amd64/bin/go 2>/dev/null | tail -1)
[ -n "$G" ] || G=go
export PATH=$(dirname $G):$PATH GOFLAGS=-mod=mod GOPROXY=off GOSUMDB=off GOTOOLCHAIN=local
mkdir -p /verif/bin
cd /verif/govc && go build -o /verif/bin/govc.new . && mv -f /verif/bin/govc.new /verif/bin/govc
