#!/opt/veriftools/pyvenv/bin/python
import json,sys,glob,jsonschema
ms=json.load(open('/root/.vp/MANIFEST.schema.json')); es=json.load(open('/root/.vp/EVIDENCE.schema.json'))
try:
    m=json.load(open('/verif/MANIFEST.json')); jsonschema.validate(m,ms); print('MANIFEST ok, checks:',len(m['checks']),'n/a:',len(m.get('not_applicable',[])))
except Exception as e: print('MANIFEST:',e)
for f in sorted(glob.glob('/verif/evidence/*.json')):
    try:
        ev=json.load(open(f)); jsonschema.validate(ev,es); c=ev['coverage']; print(f,'ok',c.get('obligations'),c.get('discharged'))
    except Exception as e: print(f,'INVALID',str(e)[:200])
