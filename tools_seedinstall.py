#!/usr/bin/env python3
"""Confirms a seeded defect produced by a sub-agent and installs it under /verif/seeded/<id>/.
usage: tools_seedinstall.py <seed-dir> [<seed-dir> ...]
For each seed: scratch worktree of /repo HEAD (outside /repo and /verif), apply patch, demo must FAIL and the pinned
suite must pass; revert, demo must PASS; then the property's check is run against /repo with the patch applied
(and /repo restored straight afterwards)."""
import json, os, shutil, subprocess, sys, re

def sh(cmd, cwd=None, timeout=1800):
    p = subprocess.run(cmd, shell=True, cwd=cwd, capture_output=True, text=True, timeout=timeout)
    return p.returncode, (p.stdout + p.stderr)

def main():
    for sd in sys.argv[1:]:
        sid = os.path.basename(sd.rstrip('/'))
        meta = json.load(open(os.path.join(sd, 'meta.json')))
        prop = meta.get('property', sid.split('-')[0])
        wt = '/var/tmp/seedwt_' + sid
        sh('git -C /repo worktree remove --force %s' % wt)
        rc, out = sh('git -C /repo worktree add --detach %s HEAD' % wt)
        ran = []
        result = {'id': sid, 'property': prop}
        try:
            rc, out = sh('git apply %s/patch.diff' % sd, cwd=wt)
            if rc != 0:
                rc2, out2 = sh('git apply --3way %s/patch.diff' % sd, cwd=wt)
                if rc2 != 0:
                    result['status'] = 'patch does not apply to the current tree (needs rebase): ' + out.strip()[:200]
                    print(json.dumps(result)); continue
            ran.append('git apply patch.diff (scratch worktree of /repo HEAD): ok')
            tdir = meta.get('test_pkg_dir', '.')
            tname = meta.get('test_name')
            shutil.copy(os.path.join(sd, 'verif_seed_test.go'), os.path.join(wt, tdir, 'verif_seed_test.go'))
            if not tname:
                src = open(os.path.join(sd, 'verif_seed_test.go')).read()
                tname = re.search(r'func (Test\w+)', src).group(1)
            cmd = "go test -mod=mod -vet=off -count=1 -timeout 300s -run '^%s$' ." % tname
            rc_with, out_with = sh(cmd, cwd=os.path.join(wt, tdir))
            ran.append('%s with the change: %s' % (cmd, 'FAIL' if rc_with != 0 else 'ok'))
            os.remove(os.path.join(wt, tdir, 'verif_seed_test.go'))
            rc_base, out_base = sh('/var/tmp/tools/basetest.sh %s' % wt)
            ran.append('pinned suite with the change: ' + out_base.strip().split('\n')[-1])
            sh('git checkout -- .', cwd=wt)
            shutil.copy(os.path.join(sd, 'verif_seed_test.go'), os.path.join(wt, tdir, 'verif_seed_test.go'))
            rc_wo, out_wo = sh(cmd, cwd=os.path.join(wt, tdir))
            ran.append('%s without the change: %s' % (cmd, 'FAIL' if rc_wo != 0 else 'ok'))
            ok = rc_with != 0 and rc_wo == 0 and rc_base == 0
            result['confirmed'] = ok
            if not ok:
                result['status'] = 'not confirmed'
                result['ran'] = ran
                print(json.dumps(result)); continue
            # run my check against /repo with the patch applied
            rc, st = sh('git -C /repo status --porcelain --untracked-files=no')
            if st.strip():
                result['status'] = '/repo dirty'; print(json.dumps(result)); continue
            # regenerate the patch against the current tree
            rc, newpatch = sh('git apply %s/patch.diff 2>/dev/null || git apply --3way %s/patch.diff; git diff' % (sd, sd), cwd=wt)
            rcd, diff = sh('git diff', cwd=wt)
            det = 'not run'
            claimed = [c['property_id'] for c in json.load(open('/verif/MANIFEST.json'))['checks']]
            if prop in claimed:
                open('/var/tmp/seed_cur.diff', 'w').write(diff)
                rc, out = sh('git -C /repo apply /var/tmp/seed_cur.diff')
                try:
                    rcc, outc = sh('/verif/check %s --no-evidence' % prop, cwd='/verif')
                finally:
                    sh('git -C /repo checkout -- .')
                viol = [l for l in outc.split('\n') if l.startswith('VIOLATION')]
                det = {'exit': rcc, 'violations': viol[:6]}
                ran.append('/verif/check %s --no-evidence with the change applied to /repo: exit %d, %d VIOLATION lines' % (prop, rcc, len(viol)))
            else:
                det = 'property not claimed (not_applicable)'
            dst = '/verif/seeded/' + sid
            os.makedirs(dst, exist_ok=True)
            open(os.path.join(dst, 'patch.diff'), 'w').write(diff)
            shutil.copy(os.path.join(sd, 'verif_seed_test.go'), dst)
            m2 = {'id': sid, 'property': prop, 'summary': meta.get('summary'), 'needs': meta.get('needs'),
                  'files': meta.get('files'), 'test_pkg_dir': tdir, 'test_name': tname,
                  'confirmed_by_me': ran, 'detected_by_check': det,
                  'origin': 'written by an independent sub-agent that saw only the property text; confirmed here in a scratch worktree of /repo HEAD'}
            json.dump(m2, open(os.path.join(dst, 'meta.json'), 'w'), indent=1)
            result['status'] = 'installed'; result['detected'] = det
            print(json.dumps(result))
        finally:
            sh('git -C /repo worktree remove --force %s' % wt)
            shutil.rmtree(wt, ignore_errors=True)

main()
