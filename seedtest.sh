#!/bin/sh
# usage: seedtest.sh <seed-dir> <prop> : applies the seed to /repo (which must be clean), runs the check, restores.
S=$1; P=$2
if [ -n "$(git -C /repo status --porcelain --untracked-files=no)" ]; then echo "REPO DIRTY - commit hooks first"; exit 2; fi
git -C /repo apply $S/patch.diff || exit 2
/verif/check $P --no-evidence | tail -${3:-4}
git -C /repo checkout -- .
